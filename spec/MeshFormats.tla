---------------------------- MODULE MeshFormats ----------------------------
(***************************************************************************)
(* C20, layer F: independent READERS for the seven mesh formats, written   *)
(* from the format definitions (not from coxeter's writers), as a trace    *)
(* validator: the harness writes a real polyhedron with coxeter.io.to_* /  *)
(* Polyhedron.save, tokenises the file with no format knowledge            *)
(* (whitespace split; XML via a generic parser; a token is an integer, a   *)
(* float, a '#...' comment word or another word) and replaces every float  *)
(* token by the id of the bit-identical vertex coordinate (or -1 when the  *)
(* token is not bit-identical to any coordinate).  TLC reads the file back *)
(* with the reader of its format and accepts iff it reconstructs exactly   *)
(* the vertex table (full double precision) and the face cycles with the   *)
(* same orientation, and all declared counts match the data.               *)
(*                                                                         *)
(* A trace: [tid, fmt, lines, table, faces, nedges, pts, nsign]            *)
(*   lines  : Seq of Seq of tokens; token = [w|->string] | [c|->string]    *)
(*            | [i|->int] | [f|->value id]                                 *)
(*   table  : Seq of <<id,id,id>>, the vertex coordinates as value ids     *)
(*   faces  : Seq of 0-based cycles, the shape's faces                     *)
(*   pts    : Seq of integer points (base lattice image of the vertices)   *)
(*   nsign  : STL only, per facet the sign of normal . (b-a)x(c-a)         *)
(***************************************************************************)
EXTENDS Integers, Sequences, FiniteSets, TLC, Json, IOUtils

Traces == JsonDeserialize(IOEnv.TRACE_FILE)

VARIABLES t, rejects
vars == <<t, rejects>>

IsW(tok) == "w" \in DOMAIN tok
IsC(tok) == "c" \in DOMAIN tok
IsI(tok) == "i" \in DOMAIN tok
IsF(tok) == "f" \in DOMAIN tok
W(tok, s) == IsW(tok) /\ tok.w = s
NonEmpty(ls) == SelectSeq(ls, LAMBDA l : Len(l) > 0)
NoComment(ls) == SelectSeq(ls, LAMBDA l : ~IsC(l[1]))
Rot(s, k) == [i \in 1..Len(s) |-> s[((i - 1 + k) % Len(s)) + 1]]
SameCycle(a, b) == Len(a) = Len(b) /\ \E k \in 0..Len(a) - 1 : Rot(b, k) = a
SameFaces(got, want) == Len(got) = Len(want) /\ \A i \in 1..Len(want) : SameCycle(got[i], want[i])
Floats3(l, k) == Len(l) >= k + 2 /\ \A j \in k..k + 2 : IsF(l[j]) /\ l[j].f >= 0       \* three bit-exact coordinates from position k
Row(l, k) == <<l[k].f, l[k + 1].f, l[k + 2].f>>
AllInts(l, k) == \A j \in k..Len(l) : IsI(l[j])
IntsFrom(l, k) == [j \in 1..Len(l) - k + 1 |-> l[j + k - 1].i]
RECURSIVE SumLens(_)
SumLens(fs) == IF fs = <<>> THEN 0 ELSE Len(Head(fs)) + SumLens(Tail(fs))

(* ---- OBJ: "v x y z" lines, "f i j k ..." lines with 1-based indices, '#' comments ------------- *)
WhyObj(tr) ==
    LET ls == NoComment(NonEmpty(tr.lines))
        vs == SelectSeq(ls, LAMBDA l : W(l[1], "v"))
        fs == SelectSeq(ls, LAMBDA l : W(l[1], "f"))
    IN IF \E i \in 1..Len(ls) : ~(W(ls[i][1], "v") \/ W(ls[i][1], "f")) THEN "obj_unknown_statement"
       ELSE IF \E i \in 1..Len(vs) : Len(vs[i]) # 4 \/ ~Floats3(vs[i], 2) THEN "obj_vertex_coordinates_exact"
       ELSE IF [i \in 1..Len(vs) |-> Row(vs[i], 2)] # tr.table THEN "obj_vertex_table"
       ELSE IF \E i \in 1..Len(fs) : Len(fs[i]) < 4 \/ ~AllInts(fs[i], 2) THEN "obj_face_indices"
       ELSE IF \E i \in 1..Len(fs) : \E j \in 2..Len(fs[i]) : fs[i][j].i < 1 \/ fs[i][j].i > Len(vs) THEN "obj_index_base_1"
       ELSE IF ~SameFaces([i \in 1..Len(fs) |-> [j \in 1..Len(fs[i]) - 1 |-> fs[i][j + 1].i - 1]], tr.faces) THEN "obj_faces"
       ELSE "ok"

(* ---- OFF: "OFF", counts line "nv nf ne", nv vertex lines, nf lines "k i1..ik" (0-based) ------------ *)
\* Dev_OffFaceCountPrefix (known finding): coxeter writes the second count as the word "f<nf>"; the reader then
\* takes the number of faces from the data and reports the deviation instead of stopping, so that the rest of the
\* file is still validated.
WhyOff(tr) ==
    LET ls == NoComment(NonEmpty(tr.lines)) IN
    IF Len(ls) < 2 \/ ~(Len(ls[1]) = 1 /\ W(ls[1][1], "OFF")) THEN "off_magic"
    ELSE LET c == ls[2]
             devprefix == Len(c) = 3 /\ IsI(c[1]) /\ IsW(c[2]) /\ IsI(c[3])
             good == Len(c) = 3 /\ IsI(c[1]) /\ IsI(c[2]) /\ IsI(c[3]) IN
         IF ~good /\ ~devprefix THEN "off_counts_line"
         ELSE LET nv == c[1].i
                  nf == IF good THEN c[2].i ELSE Len(ls) - 2 - nv
                  ne == c[3].i
                  vl == SubSeq(ls, 3, 2 + nv)
                  fl == SubSeq(ls, 3 + nv, Len(ls)) IN
              IF nv < 0 \/ Len(ls) < 2 + nv THEN "off_vertex_count"
              ELSE IF \E i \in 1..Len(vl) : Len(vl[i]) # 3 \/ ~Floats3(vl[i], 1) THEN "off_vertex_coordinates_exact"
              ELSE IF [i \in 1..Len(vl) |-> Row(vl[i], 1)] # tr.table THEN "off_vertex_table"
              ELSE IF Len(fl) # nf THEN "off_face_count"
              ELSE IF \E i \in 1..Len(fl) : ~AllInts(fl[i], 1) \/ Len(fl[i]) < 4 \/ fl[i][1].i # Len(fl[i]) - 1 THEN "off_face_degree"
              ELSE IF ~SameFaces([i \in 1..Len(fl) |-> IntsFrom(fl[i], 2)], tr.faces) THEN "off_faces"
              ELSE IF ne # tr.nedges THEN "off_edge_count"
              ELSE IF devprefix THEN "Dev_OffFaceCountPrefix"
              ELSE "ok"

(* ---- PLY (ascii): header grammar, element counts, end_header, body ------------------------------------ *)
IndexOfLine(ls, p(_)) == IF \E i \in 1..Len(ls) : p(ls[i]) THEN CHOOSE i \in 1..Len(ls) : p(ls[i]) /\ \A j \in 1..i - 1 : ~p(ls[j]) ELSE 0
WhyPly(tr) ==
    LET ls == NonEmpty(tr.lines)
        eh == IndexOfLine(ls, LAMBDA l : Len(l) = 1 /\ W(l[1], "end_header")) IN
    IF Len(ls) < 3 \/ ~(Len(ls[1]) = 1 /\ W(ls[1][1], "ply")) THEN "ply_magic"
    ELSE IF ~(Len(ls[2]) = 3 /\ W(ls[2][1], "format") /\ W(ls[2][2], "ascii") /\ IsF(ls[2][3])) THEN "ply_format_line"
    ELSE IF eh = 0 THEN "ply_end_header"
    ELSE LET hd == SelectSeq(SubSeq(ls, 3, eh - 1), LAMBDA l : ~W(l[1], "comment"))
             body == SubSeq(ls, eh + 1, Len(ls)) IN
         \* header: element vertex N / three float properties / element face M / one list property
         IF Len(hd) # 6 THEN "ply_header_statements"
         ELSE IF ~(Len(hd[1]) = 3 /\ W(hd[1][1], "element") /\ W(hd[1][2], "vertex") /\ IsI(hd[1][3])) THEN "ply_element_vertex"
         ELSE IF \E k \in 2..4 : ~(Len(hd[k]) = 3 /\ W(hd[k][1], "property") /\ (W(hd[k][2], "float") \/ W(hd[k][2], "double") \/ W(hd[k][2], "float32") \/ W(hd[k][2], "float64"))
                                   /\ W(hd[k][3], <<"x", "y", "z">>[k - 1])) THEN "ply_vertex_properties"
         ELSE IF ~(Len(hd[5]) = 3 /\ W(hd[5][1], "element") /\ W(hd[5][2], "face") /\ IsI(hd[5][3])) THEN "ply_element_face"
         ELSE IF ~(Len(hd[6]) = 5 /\ W(hd[6][1], "property") /\ W(hd[6][2], "list")
                   /\ (W(hd[6][5], "vertex_indices") \/ W(hd[6][5], "vertex_index"))) THEN "ply_face_property"
         ELSE LET nv == hd[1][3].i  nf == hd[5][3].i
                  vl == SubSeq(body, 1, nv)  fl == SubSeq(body, nv + 1, Len(body)) IN
              IF Len(body) # nv + nf THEN "ply_declared_counts_match_data"
              ELSE IF \E i \in 1..Len(vl) : Len(vl[i]) # 3 \/ ~Floats3(vl[i], 1) THEN "ply_vertex_coordinates_exact"
              ELSE IF [i \in 1..Len(vl) |-> Row(vl[i], 1)] # tr.table THEN "ply_vertex_table"
              ELSE IF \E i \in 1..Len(fl) : ~AllInts(fl[i], 1) \/ Len(fl[i]) < 4 \/ fl[i][1].i # Len(fl[i]) - 1 THEN "ply_face_degree"
              ELSE IF ~SameFaces([i \in 1..Len(fl) |-> IntsFrom(fl[i], 2)], tr.faces) THEN "ply_faces"
              ELSE "ok"

(* ---- legacy VTK POLYDATA -------------------------------------------------------------------------------- *)
WhyVtk(tr) ==
    LET ls == NonEmpty(tr.lines) IN
    IF Len(ls) < 6 THEN "vtk_too_short"
    ELSE IF ~(Len(ls[1]) = 5 /\ IsC(ls[1][1]) /\ ls[1][1].c = "#" /\ W(ls[1][2], "vtk") /\ W(ls[1][3], "DataFile") /\ W(ls[1][4], "Version")) THEN "vtk_identifier_line"
    ELSE IF ~(Len(ls[3]) = 1 /\ W(ls[3][1], "ASCII")) THEN "vtk_ascii_line"
    ELSE IF ~(Len(ls[4]) = 2 /\ W(ls[4][1], "DATASET") /\ W(ls[4][2], "POLYDATA")) THEN "vtk_dataset_line"
    ELSE IF ~(Len(ls[5]) = 3 /\ W(ls[5][1], "POINTS") /\ IsI(ls[5][2]) /\ (W(ls[5][3], "float") \/ W(ls[5][3], "double"))) THEN "vtk_points_line"
    ELSE LET nv == ls[5][2].i IN
         IF Len(ls) < 6 + nv THEN "vtk_point_count"
         ELSE LET vl == SubSeq(ls, 6, 5 + nv)
                  pl == ls[6 + nv]
                  fl == SubSeq(ls, 7 + nv, Len(ls)) IN
              IF \E i \in 1..Len(vl) : Len(vl[i]) # 3 \/ ~Floats3(vl[i], 1) THEN "vtk_point_coordinates_exact"
              ELSE IF [i \in 1..Len(vl) |-> Row(vl[i], 1)] # tr.table THEN "vtk_point_table"
              ELSE IF ~(Len(pl) = 3 /\ W(pl[1], "POLYGONS") /\ IsI(pl[2]) /\ IsI(pl[3])) THEN "vtk_polygons_line"
              ELSE IF pl[2].i # Len(fl) THEN "vtk_polygon_count"
              ELSE IF \E i \in 1..Len(fl) : ~AllInts(fl[i], 1) \/ Len(fl[i]) < 4 \/ fl[i][1].i # Len(fl[i]) - 1 THEN "vtk_face_degree"
              ELSE IF pl[3].i # Len(fl) + SumLens([i \in 1..Len(fl) |-> IntsFrom(fl[i], 2)]) THEN "vtk_polygons_size"
              ELSE IF ~SameFaces([i \in 1..Len(fl) |-> IntsFrom(fl[i], 2)], tr.faces) THEN "vtk_faces"
              ELSE "ok"

(* ---- ASCII STL: solid / facet normal / outer loop / vertex x3 / endloop / endfacet / endsolid ------------- *)
\* a facet is 7 lines; its three vertex rows must be rows of the table; the triangles of each face must tile it
\* (integer areas on the lattice image) with the face's orientation, and the normal token must point outward.
Cross3(a, b) == <<a[2] * b[3] - a[3] * b[2], a[3] * b[1] - a[1] * b[3], a[1] * b[2] - a[2] * b[1]>>
Sub3(a, b) == <<a[1] - b[1], a[2] - b[2], a[3] - b[3]>>
Add3(a, b) == <<a[1] + b[1], a[2] + b[2], a[3] + b[3]>>
Dot3(a, b) == a[1] * b[1] + a[2] * b[2] + a[3] * b[3]
RECURSIVE SumV(_)
SumV(s) == IF s = <<>> THEN <<0, 0, 0>> ELSE Add3(Head(s), SumV(Tail(s)))
VertexIndex(tr, row) == IF \E i \in 1..Len(tr.table) : tr.table[i] = row THEN CHOOSE i \in 1..Len(tr.table) : tr.table[i] = row ELSE 0
FaceCross(tr, f) == SumV([k \in 1..Len(f) - 2 |-> Cross3(Sub3(tr.pts[f[k + 1] + 1], tr.pts[f[1] + 1]), Sub3(tr.pts[f[k + 2] + 1], tr.pts[f[1] + 1]))])
WhyStl(tr) ==
    LET ls == NonEmpty(tr.lines)  n == Len(ls) IN
    IF n < 2 \/ ~W(ls[1][1], "solid") THEN "stl_solid_line"
    ELSE IF ~W(ls[n][1], "endsolid") THEN "stl_endsolid_line"
    ELSE IF (n - 2) % 7 # 0 THEN "stl_facet_structure"
    ELSE LET nfac == (n - 2) \div 7
             L(k, j) == ls[1 + 7 * (k - 1) + j] IN
         IF \E k \in 1..nfac :
               ~( Len(L(k, 1)) = 5 /\ W(L(k, 1)[1], "facet") /\ W(L(k, 1)[2], "normal")
                  /\ Len(L(k, 2)) = 2 /\ W(L(k, 2)[1], "outer") /\ W(L(k, 2)[2], "loop")
                  /\ (\A j \in 3..5 : Len(L(k, j)) = 4 /\ W(L(k, j)[1], "vertex"))
                  /\ Len(L(k, 6)) = 1 /\ W(L(k, 6)[1], "endloop") /\ Len(L(k, 7)) = 1 /\ W(L(k, 7)[1], "endfacet") )
         THEN "stl_facet_structure"
         ELSE IF \E k \in 1..nfac : \E j \in 3..5 : ~Floats3(L(k, j), 2) THEN "stl_vertex_coordinates_exact"
         ELSE LET tri(k) == [j \in 1..3 |-> VertexIndex(tr, Row(L(k, j + 2), 2))]
                  tris == [k \in 1..nfac |-> tri(k)]
                  host(k) == {i \in 1..Len(tr.faces) : \A j \in 1..3 : (tris[k][j] - 1) \in {tr.faces[i][m] : m \in 1..Len(tr.faces[i])}}
                  tcr(k) == Cross3(Sub3(tr.pts[tris[k][2]], tr.pts[tris[k][1]]), Sub3(tr.pts[tris[k][3]], tr.pts[tris[k][1]])) IN
              IF \E k \in 1..nfac : \E j \in 1..3 : tris[k][j] = 0 THEN "stl_vertex_is_a_shape_vertex"
              ELSE IF \E k \in 1..nfac : Cardinality(host(k)) # 1 THEN "stl_triangle_in_one_face"
              ELSE IF \E k \in 1..nfac : LET i == CHOOSE i \in host(k) : TRUE IN Dot3(tcr(k), FaceCross(tr, tr.faces[i])) <= 0
                   THEN "stl_triangle_orientation"
              ELSE IF \E i \in 1..Len(tr.faces) :
                        LET mine == {k \in 1..nfac : host(k) = {i}}
                            fc == FaceCross(tr, tr.faces[i]) IN
                        \/ Cardinality(mine) # Len(tr.faces[i]) - 2
                        \/ SumV([k \in 1..nfac |-> IF k \in mine THEN tcr(k) ELSE <<0, 0, 0>>]) # fc
                   THEN "stl_triangles_tile_each_face"
              ELSE IF \E k \in 1..nfac : tr.nsign[k] # 1 THEN "stl_normal_outward"
              ELSE "ok"

(* ---- X3D (and HTML wrapping it): IndexedFaceSet@coordIndex with -1 separators, Coordinate@point triples ------ *)
\* the harness flattens the XML tree into lines <<[w|->path], [w|->attribute], tokens...>>
AttrLine(tr, path, attr) == IndexOfLine(tr.lines, LAMBDA l : Len(l) >= 2 /\ W(l[1], path) /\ W(l[2], attr))
RECURSIVE SplitAtMinus1(_, _, _)
SplitAtMinus1(s, cur, acc) ==
    IF s = <<>> THEN (IF cur = <<>> THEN acc ELSE Append(acc, cur))
    ELSE IF Head(s) = -1 THEN SplitAtMinus1(Tail(s), <<>>, Append(acc, cur))
    ELSE SplitAtMinus1(Tail(s), Append(cur, Head(s)), acc)
WhyX3dAt(tr, prefix) ==
    LET ci == AttrLine(tr, prefix \o "x3d/Scene/shape/IndexedFaceSet", "coordIndex")
        pi == AttrLine(tr, prefix \o "x3d/Scene/shape/IndexedFaceSet/Coordinate", "point") IN
    IF ci = 0 THEN "x3d_indexedfaceset_coordindex"
    ELSE IF pi = 0 THEN "x3d_coordinate_point"
    ELSE LET cl == tr.lines[ci]  pl == tr.lines[pi] IN
         IF ~AllInts(cl, 3) THEN "x3d_coordindex_integers"
         ELSE IF (Len(pl) - 2) % 3 # 0 \/ \E j \in 3..Len(pl) : ~IsF(pl[j]) \/ pl[j].f < 0 THEN "x3d_point_coordinates_exact"
         ELSE LET idx == IntsFrom(cl, 3)
                  npts == (Len(pl) - 2) \div 3
                  prow(k) == <<pl[3 * k].f, pl[3 * k + 1].f, pl[3 * k + 2].f>>       \* k-th point, 1-based
                  groups == SplitAtMinus1(idx, <<>>, <<>>) IN
              IF \E g \in 1..Len(groups) : \E j \in 1..Len(groups[g]) : groups[g][j] < 0 \/ groups[g][j] >= npts THEN "x3d_index_range"
              ELSE IF idx[Len(idx)] # -1 THEN "x3d_last_face_terminated"
              ELSE LET got == [g \in 1..Len(groups) |-> [j \in 1..Len(groups[g]) |-> VertexIndex(tr, prow(groups[g][j] + 1)) - 1]] IN
                   IF \E g \in 1..Len(got) : \E j \in 1..Len(got[g]) : got[g][j] < 0 THEN "x3d_point_is_a_shape_vertex"
                   ELSE IF ~SameFaces(got, tr.faces) THEN "x3d_faces"
                   ELSE "ok"
WhyX3d(tr) == WhyX3dAt(tr, "")
WhyHtml(tr) == IF AttrLine(tr, "html/body/x3d", "profile") = 0 /\ AttrLine(tr, "html/body/x3d", "version") = 0 THEN "html_contains_x3d"
               ELSE WhyX3dAt(tr, "html/body/")

Why(tr) == CASE tr.fmt = "OBJ" -> WhyObj(tr) [] tr.fmt = "OFF" -> WhyOff(tr) [] tr.fmt = "PLY" -> WhyPly(tr)
             [] tr.fmt = "VTK" -> WhyVtk(tr) [] tr.fmt = "STL" -> WhyStl(tr) [] tr.fmt = "X3D" -> WhyX3d(tr)
             [] tr.fmt = "HTML" -> WhyHtml(tr) [] OTHER -> "unknown_format"

Init == t = 1 /\ rejects = 0
Next == /\ t <= Len(Traces)
        /\ LET tr == Traces[t]  w == Why(tr) IN
             IF w = "ok" THEN rejects' = rejects
             ELSE PrintT(ToJson([k |-> "reject", tid |-> tr.tid, fmt |-> tr.fmt, why |-> w])) /\ rejects' = rejects + 1
        /\ t' = t + 1
Spec == Init /\ [][Next]_vars
=============================================================================
