----------------------------- MODULE Family523 -----------------------------
(***************************************************************************)
(* C17: the 523 truncation family (Chen et al. 2014) as an exact half-space *)
(* intersection over the field Q(sqrt 5).                                   *)
(*                                                                          *)
(* A number p + q sqrt5 is the pair <<p, q>> of integers.  With s = (sqrt5  *)
(* - 1)/2 and S = (sqrt5 + 1)/2 the plane normals are, in DOUBLED units,    *)
(*   type a (12 five-fold axes)  : cyclic permutations of (+-2, 0, +-2s)    *)
(*   type b (30 two-fold axes)   : cyclic permutations of (+-4, 0, 0) and   *)
(*                                 of (+-2S, +-2, +-2s)                     *)
(*   type c (20 three-fold axes) : (+-2S, +-2S, +-2S) and cyclic            *)
(*                                 permutations of (+-2, 0, +-2 S^2)        *)
(* written from the symmetry description, not copied from the code's table; *)
(* T1_Icosahedral proves that the set is invariant, type by type, under a   *)
(* rotation of order five, the cyclic permutation and the sign changes that *)
(* generate the rotation group of the icosahedron.                          *)
(*                                                                          *)
(* The polytope for parameters (a, c) = (an, cn) / Dn - themselves numbers  *)
(* of Q(sqrt 5), so that the irrational corners of the documented domain    *)
(* a in [1, s sqrt5], c in [S^2, 3] are states - is {x : n_i . x <= d_i}    *)
(* with b = 2.  Its vertices are the feasible intersections of three planes *)
(* (Cramer's rule in Q(sqrt 5)); each state emits the exact vertex set.     *)
(***************************************************************************)
EXTENDS Exact, Json, TLC, SequencesExt, FiniteSets

CONSTANTS Dn,        \* integer denominator of the parameters
          Params     \* set of <<an, cn>>, an and cn pairs <<p, q>> meaning (p + q sqrt5) / Dn

VARIABLES par
vars == <<par>>
Init == par \in Params
Next == FALSE /\ UNCHANGED vars
Spec == Init /\ [][Next]_vars

(* ---- arithmetic in Z[sqrt 5] ------------------------------------------------------------------------------------ *)
QZ == <<0, 0>>
QI(n) == <<n, 0>>
QAdd(x, y) == <<x[1] + y[1], x[2] + y[2]>>
QSub(x, y) == <<x[1] - y[1], x[2] - y[2]>>
QNeg(x) == <<-x[1], -x[2]>>
QMul(x, y) == <<x[1] * y[1] + 5 * x[2] * y[2], x[1] * y[2] + x[2] * y[1]>>
QConj(x) == <<x[1], -x[2]>>
QNorm(x) == x[1] * x[1] - 5 * x[2] * x[2]          \* x * conj(x), an integer
\* sign of p + q sqrt5.  Mixed signs: compare p^2 with 5 q^2 when the squares fit into TLC's integers, otherwise decide with the
\* convergents 682/305 < sqrt5 < 2889/1292; an undecided comparison stops TLC (never a silent wrong answer)
QSign(x) ==
    LET p == x[1]  q == x[2] IN
    IF p = 0 /\ q = 0 THEN 0
    ELSE IF p >= 0 /\ q >= 0 THEN 1
    ELSE IF p <= 0 /\ q <= 0 THEN -1
    ELSE LET ap == Abs(p)  aq == Abs(q)
             big == IF ap <= 20000 /\ aq <= 20000
                    THEN Sgn(ap * ap - 5 * aq * aq)                  \* sign of |p| - |q| sqrt5
                    ELSE IF ap * 1292 >= aq * 2889 THEN 1
                    ELSE IF ap * 305 <= aq * 682 THEN -1
                    ELSE Assert(FALSE, <<"QSign undecided", x>>)
         IN IF p > 0 THEN big ELSE -big
QDot(u, v) == QAdd(QAdd(QMul(u[1], v[1]), QMul(u[2], v[2])), QMul(u[3], v[3]))
QDet3(a, b, c) ==
    QAdd(QSub(QMul(a[1], QSub(QMul(b[2], c[3]), QMul(b[3], c[2]))),
              QMul(a[2], QSub(QMul(b[1], c[3]), QMul(b[3], c[1])))),
         QMul(a[3], QSub(QMul(b[1], c[2]), QMul(b[2], c[1]))))

(* ---- the planes (doubled units) --------------------------------------------------------------------------------- *)
Two == <<2, 0>>   Four == <<4, 0>>   s2 == <<-1, 1>>   S2 == <<1, 1>>   SS2 == <<3, 1>>        \* 2, 4, 2s, 2S, 2S^2
Cyc(v) == {v, <<v[3], v[1], v[2]>>, <<v[2], v[3], v[1]>>}
Sg(e, x) == IF e = 1 THEN x ELSE QNeg(x)
PM == {1, -1}
Five == UNION {Cyc(<<Sg(e1, Two), QZ, Sg(e3, s2)>>) : e1 \in PM, e3 \in PM}
TwoFold == UNION {Cyc(<<Sg(e1, Four), QZ, QZ>>) : e1 \in PM}
           \cup UNION {Cyc(<<Sg(e1, S2), Sg(e2, Two), Sg(e3, s2)>>) : e1 \in PM, e2 \in PM, e3 \in PM}
Three == {<<Sg(e1, S2), Sg(e2, S2), Sg(e3, S2)>> : e1 \in PM, e2 \in PM, e3 \in PM}
         \cup UNION {Cyc(<<Sg(e1, Two), QZ, Sg(e3, SS2)>>) : e1 \in PM, e3 \in PM}
PlaneSet == {<<n, 0>> : n \in Five} \cup {<<n, 1>> : n \in TwoFold} \cup {<<n, 2>> : n \in Three}
PlaneSeq == SetToSeq(PlaneSet)
NP == Len(PlaneSeq)
Nrm(i) == PlaneSeq[i][1]
Typ(i) == PlaneSeq[i][2]

\* 4 x a rotation by 72 degrees:  M = 1/2 [[1, s, S], [s, S, -1], [-S, 1, s]]
M4 == << <<Two, s2, S2>>, <<s2, S2, QNeg(Two)>>, <<QNeg(S2), Two, s2>> >>
Rot5(n) == <<QDot(M4[1], n), QDot(M4[2], n), QDot(M4[3], n)>>              \* = 4 M n
Times4(n) == <<QMul(Four, n[1]), QMul(Four, n[2]), QMul(Four, n[3])>>
Flip12(n) == <<QNeg(n[1]), QNeg(n[2]), n[3]>>                                \* rotation by 180 degrees about z
T1_Icosahedral ==
    /\ Cardinality(Five) = 12 /\ Cardinality(TwoFold) = 30 /\ Cardinality(Three) = 20
    /\ \A F \in {Five, TwoFold, Three} : \A n \in F :
          /\ \E m \in F : Times4(m) = Rot5(n)                               \* five-fold rotation
          /\ <<n[3], n[1], n[2]>> \in F /\ Flip12(n) \in F /\ <<QNeg(n[1]), QNeg(n[2]), QNeg(n[3])>> \in F
    /\ QDet3(M4[1], M4[2], M4[3]) = <<64, 0>>                              \* det M = 1
    /\ \A i, j \in 1..3 : QDot(M4[i], M4[j]) = IF i = j THEN <<16, 0>> ELSE QZ    \* M is orthogonal

(* ---- the polytope ------------------------------------------------------------------------------------------------ *)
\* right-hand sides in doubled units, scaled by Dn: 2 a Dn, 2 b Dn = 4 Dn, 2 c Dn
an == par[1]   cn == par[2]
Dist(i) == CASE Typ(i) = 0 -> QMul(Two, an) [] Typ(i) = 1 -> QI(4 * Dn) [] Typ(i) = 2 -> QMul(Two, cn)
\* documented domain:  Dn <= a Dn <= Dn s sqrt5 = Dn (5 - sqrt5)/2,   Dn S^2 = Dn (3 + sqrt5)/2 <= c Dn <= 3 Dn   (doubled to stay integral)
InDomain == /\ QSign(QSub(QMul(Two, an), QI(2 * Dn))) >= 0 /\ QSign(QSub(<<5 * Dn, -Dn>>, QMul(Two, an))) >= 0
            /\ QSign(QSub(QMul(Two, cn), <<3 * Dn, Dn>>)) >= 0 /\ QSign(QSub(QI(6 * Dn), QMul(Two, cn))) >= 0
Det(i, j, k) == QDet3(Nrm(i), Nrm(j), Nrm(k))
Xnum(i, j, k) ==
    LET A == Nrm(i)  B == Nrm(j)  C == Nrm(k)
        r == <<Dist(i), Dist(j), Dist(k)>>
    IN << QDet3(<<r[1], A[2], A[3]>>, <<r[2], B[2], B[3]>>, <<r[3], C[2], C[3]>>),
          QDet3(<<A[1], r[1], A[3]>>, <<B[1], r[2], B[3]>>, <<C[1], r[3], C[3]>>),
          QDet3(<<A[1], A[2], r[1]>>, <<B[1], B[2], r[2]>>, <<C[1], C[2], r[3]>>) >>
\* x = X / (Dn det) satisfies n_m . x <= d_m  iff  sgn(det) (d_m det - n_m . X) >= 0
Feasible(i, j, k) == LET d == Det(i, j, k)  X == Xnum(i, j, k)  sd == QSign(d) IN
    \A m \in 1..NP : sd * QSign(QSub(QMul(Dist(m), d), QDot(Nrm(m), X))) >= 0
\* the point with an integer denominator: X conj(det) / (Dn N(det)), reduced by the gcd of the seven integers, denominator > 0
Point(i, j, k) ==
    LET d == Det(i, j, k)  X == Xnum(i, j, k)  cj == QConj(d)  nn == QNorm(d)
        Y == <<QMul(X[1], cj), QMul(X[2], cj), QMul(X[3], cj)>>
        den == Dn * nn
        g0 == Gcd(Gcd(Gcd(Y[1][1], Y[1][2]), Gcd(Y[2][1], Y[2][2])), Gcd(Gcd(Y[3][1], Y[3][2]), den))
        g == (IF g0 = 0 THEN 1 ELSE g0) * Sgn(den)
    IN << <<Y[1][1] \div g, Y[1][2] \div g>>, <<Y[2][1] \div g, Y[2][2] \div g>>, <<Y[3][1] \div g, Y[3][2] \div g>>, den \div g >>
Triples == {u \in (1..NP) \X (1..NP) \X (1..NP) : u[1] < u[2] /\ u[2] < u[3]}
Vertices == {Point(t[1], t[2], t[3]) : t \in {u \in Triples : Det(u[1], u[2], u[3]) # QZ /\ Feasible(u[1], u[2], u[3])}}

\* the documented solids at the corners of the domain, by their number of vertices: icosidodecahedron (1, S^2), icosahedron
\* (s sqrt5, S^2), dodecahedron (1, 3), rhombic triacontahedron (s sqrt5, 3)
IsA1 == QMul(Two, an) = QI(2 * Dn)     IsAmax == QMul(Two, an) = <<5 * Dn, -Dn>>
IsCmin == QMul(Two, cn) = <<3 * Dn, Dn>>     IsC3 == QMul(Two, cn) = QI(6 * Dn)
CornerVertices == IF IsA1 /\ IsCmin THEN 30 ELSE IF IsAmax /\ IsCmin THEN 12 ELSE IF IsA1 /\ IsC3 THEN 20
                  ELSE IF IsAmax /\ IsC3 THEN 32 ELSE 0
\* one invariant evaluates the vertex set once: the corner theorem and the emission
Record(V) == [k |-> "family523", a |-> <<an, Dn>>, c |-> <<cn, Dn>>, indomain |-> InDomain, verts |-> V, corner |-> CornerVertices]
T1_Corners523_Emit ==
    LET V == IF InDomain THEN Vertices ELSE {} IN
    /\ (InDomain /\ CornerVertices # 0) => Cardinality(V) = CornerVertices
    /\ PrintT(ToJson(Record(V)))
=============================================================================
