---------------------------- MODULE MC_Convex3 ----------------------------
(* Model-checking instances of Convex3: named universes of lattice points in strictly convex position. *)
EXTENDS Convex3

Shell(a, b, c, N, B) == {p \in (-B..B) \X (-B..B) \X (-B..B) : a * p[1] * p[1] + b * p[2] * p[2] + c * p[3] * p[3] = N}

\* twelve points of the sphere shell x^2+y^2+z^2 = 9: four axis points and eight of type (1,2,2)
U12 == { <<3, 0, 0>>, <<-3, 0, 0>>, <<0, 3, 0>>, <<0, 0, -3>>,
         <<1, 2, 2>>, <<-1, 2, 2>>, <<2, -1, 2>>, <<2, 2, -1>>, <<-2, -2, 1>>, <<-2, 1, -2>>, <<1, -2, -2>>, <<-1, -2, 2>> }
S9  == Shell(1, 1, 1, 9, 3)      \* 30 points, many coplanar quadruples
S14 == Shell(1, 1, 1, 14, 3)     \* 48 points
E6  == Shell(1, 2, 3, 6, 3)      \* ellipsoidal shell
E21 == Shell(1, 2, 3, 21, 5)
\* sharp and flat features together: a tall roof with an acute ridge along y whose middle is raised to a tip, so that
\* nearly flat facets (tip bevels) sit next to a sharp ridge; and a flat slab with a low pyramid on top
Blade == { <<4, 3, 0>>, <<-4, 3, 0>>, <<4, -3, 0>>, <<-4, -3, 0>>, <<0, 3, 8>>, <<0, -3, 8>>, <<0, 0, 9>> }
Slab == { <<5, 4, 0>>, <<-5, 4, 0>>, <<5, -4, 0>>, <<-5, -4, 0>>, <<4, 3, 1>>, <<-4, 3, 1>>, <<4, -3, 1>>, <<-4, -3, 1>>, <<0, 0, 2>> }
\* a wedge whose ridge is sharp only on the short stretch (0,-1,0)-(0,0,0); behind it a nearly flat bevel facet descends:
\* the nearest feature of points above the tip is not on the facet they are furthest outside of
Ridge == { <<4, -16, -8>>, <<-4, -16, -8>>, <<1, -16, -2>>, <<-1, -16, -2>>, <<0, -1, 0>>, <<0, 0, 0>>, <<4, 0, -8>>, <<-4, 0, -8>> }
\* slender asymmetric solids (a far apex over a small base): the centroid is far from the farthest vertex, so shortcuts that
\* measure a bounding radius from the wrong point cut off the cap under the apex
Spike == { <<1, 1, 0>>, <<-1, 1, 0>>, <<1, -1, 0>>, <<-1, -1, 0>>, <<0, 0, 16>> }
SkewSpike == { <<0, 0, 0>>, <<3, 0, 0>>, <<0, 3, 0>>, <<1, 1, 18>> }
\* a wedge whose knife edge has an interior dihedral angle of 0.76 degrees (2 atan(1/150))
Knife == { <<0, 0, 0>>, <<2, 0, 0>>, <<0, 150, 1>>, <<0, 150, -1>>, <<2, 150, 1>>, <<2, 150, -1>> }
\* the cube with one corner pushed out along the diagonal: three square faces break into two triangles each (9 facets); the
\* same combinatorial structure holds for every positive push, which the harness scales down to 1e-8 of the edge
Lifted == { <<0, 0, 0>>, <<2, 0, 0>>, <<0, 2, 0>>, <<0, 0, 2>>, <<2, 2, 0>>, <<2, 0, 2>>, <<0, 2, 2>>, <<3, 3, 3>> }
\* solids with vertical quadrilateral faces (squashed along z by the harness they become thin plates with faces of extreme aspect ratio)
Prism6 == { <<2, 0, 0>>, <<1, 2, 0>>, <<-1, 2, 0>>, <<-2, 0, 0>>, <<-1, -2, 0>>, <<1, -2, 0>>,
            <<2, 0, 3>>, <<1, 2, 3>>, <<-1, 2, 3>>, <<-2, 0, 3>>, <<-1, -2, 3>>, <<1, -2, 3>> }
Frustum == { <<2, 2, 0>>, <<-2, 2, 0>>, <<2, -2, 0>>, <<-2, -2, 0>>, <<1, 1, 3>>, <<-1, 1, 3>>, <<1, -1, 3>>, <<-1, -1, 3>> }
\* a prism over an irregular cyclic octagon (all sixteen vertices on the sphere x^2 + y^2 + z^2 = 29, two coplanar concyclic
\* rings): degenerate support sets for a minimal-ball solver, whose centre (the origin) is far from the mean of the vertices
CyclicPrism == { <<5, 0, -2>>, <<4, 3, -2>>, <<3, 4, -2>>, <<0, 5, -2>>, <<-3, 4, -2>>, <<-4, 3, -2>>, <<-5, 0, -2>>, <<3, -4, -2>>,
                 <<5, 0, 2>>, <<4, 3, 2>>, <<3, 4, 2>>, <<0, 5, 2>>, <<-3, 4, 2>>, <<-4, 3, 2>>, <<-5, 0, 2>>, <<3, -4, 2>> }
Zero == <<0, 0, 0>>
Far == <<40, -30, 20>>
=============================================================================
