------------------------------ MODULE SpheroBox ------------------------------
(***************************************************************************)
(* C05, spheropolyhedra with positive rounding radius: for a box core with *)
(* half extents h (centred at the origin) the distance of a point x to the *)
(* core is sqrt(sum_k max(0, |x_k| - h_k)^2), so membership in the rounded *)
(* box of radius r is an exact integer comparison for half-lattice points  *)
(* and half-integer radii (everything doubled).                            *)
(***************************************************************************)
EXTENDS Integers, Sequences, FiniteSets, TLC, Json

CONSTANTS HalfExtents,   \* set of <<h1, h2, h3>> (integers)
          Radii2,        \* set of doubled radii (r = Radii2 / 2)
          Reach          \* query points: doubled coordinates in -Reach..Reach
VARIABLES h, r2
vars == <<h, r2>>
Init == h \in HalfExtents /\ r2 \in Radii2
Next == FALSE /\ UNCHANGED vars
Spec == Init /\ [][Next]_vars

Abs(x) == IF x < 0 THEN -x ELSE x
Pos(x) == IF x > 0 THEN x ELSE 0
\* squared distance to the core, times 4 (q in doubled coordinates)
Dist2x4(q) == Pos(Abs(q[1]) - 2 * h[1]) * Pos(Abs(q[1]) - 2 * h[1]) + Pos(Abs(q[2]) - 2 * h[2]) * Pos(Abs(q[2]) - 2 * h[2])
            + Pos(Abs(q[3]) - 2 * h[3]) * Pos(Abs(q[3]) - 2 * h[3])
\* 1 inside (distance < r), 0 outside (distance > r), 2 on the boundary
Member(q) == IF Dist2x4(q) < r2 * r2 THEN 1 ELSE IF Dist2x4(q) > r2 * r2 THEN 0 ELSE 2
\* for r = 0 the rounded box is the box itself: strictly inside the box counts as inside, its surface as boundary
MemberR0(q) == IF \A k \in 1..3 : Abs(q[k]) < 2 * h[k] THEN 1 ELSE IF Dist2x4(q) > 0 THEN 0 ELSE 2
N == 2 * Reach + 1
QSeq == [i \in 1..N * N * N |-> << ((i - 1) \div (N * N)) - Reach, (((i - 1) \div N) % N) - Reach, ((i - 1) % N) - Reach >>]
\* T1: growing the radius never loses a point (monotone), and with r = 0 nothing outside the box is inside
T1_Monotone == \A i \in 1..Len(QSeq) : (r2 = 0) => (Member(QSeq[i]) = 1 => FALSE)
Record == [k |-> "spherobox", h |-> h, r2 |-> r2, q2 |-> QSeq,
           mem |-> [i \in 1..Len(QSeq) |-> IF r2 = 0 THEN MemberR0(QSeq[i]) ELSE
                                            (IF Member(QSeq[i]) = 1 \/ MemberR0(QSeq[i]) = 1 THEN 1 ELSE Member(QSeq[i]))]]
Emit == PrintT(ToJson(Record))
=============================================================================
