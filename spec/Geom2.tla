------------------------------- MODULE Geom2 -------------------------------
(***************************************************************************)
(* Layer D for planar figures: what the observables of a simple polygon    *)
(* MEAN, defined without reference to coxeter's algorithms.  A polygon is  *)
(* a sequence of integer points (the vertex cycle); its interior is given  *)
(* independently by a triangulation T (a set of positively oriented        *)
(* triangles <<a,b,c>> with pairwise disjoint interiors whose union is the *)
(* polygon) which the growth machine of Polygon2.tla maintains.            *)
(***************************************************************************)
EXTENDS Exact

(* ---- segments ---------------------------------------------------------- *)
OnSegment(p, a, b) ==      \* p on the closed segment ab
    /\ Orient2(a, b, p) = 0
    /\ Mn(a[1], b[1]) <= p[1] /\ p[1] <= Mx(a[1], b[1])
    /\ Mn(a[2], b[2]) <= p[2] /\ p[2] <= Mx(a[2], b[2])

SegmentsMeet(a, b, c, d) ==   \* closed segments ab and cd share at least one point
    LET o1 == Sgn(Orient2(a, b, c))
        o2 == Sgn(Orient2(a, b, d))
        o3 == Sgn(Orient2(c, d, a))
        o4 == Sgn(Orient2(c, d, b))
    IN \/ (o1 * o2 < 0 /\ o3 * o4 < 0)
       \/ OnSegment(c, a, b) \/ OnSegment(d, a, b) \/ OnSegment(a, c, d) \/ OnSegment(b, c, d)

(* A vertex cycle is simple iff non-adjacent edges are disjoint and adjacent edges meet only in  *)
(* their common vertex.                                                                          *)
Simple(poly) ==
    LET n == Len(poly) IN
    /\ n >= 3
    /\ \A i, j \in 1..n : i < j => poly[i] # poly[j]
    /\ \A i, j \in 1..n : i < j =>
         LET a == poly[i]  b == poly[Nxt(i, n)]  c == poly[j]  d == poly[Nxt(j, n)] IN
         IF Nxt(i, n) = j THEN ~OnSegment(d, a, b) /\ ~OnSegment(a, c, d)
         ELSE IF Nxt(j, n) = i THEN ~OnSegment(c, a, b) /\ ~OnSegment(b, c, d)
         ELSE ~SegmentsMeet(a, b, c, d)

(* ---- measures by integration over the triangulation -------------------- *)
TriDet(t) == Orient2(t[1], t[2], t[3])                 \* twice the (positive) area of t

\* 2 * area
DArea2(T) == SumOver(T, [t \in T |-> TriDet(t)])

\* centroid = <<DCnum[1], DCnum[2]>> / (3 * DArea2)
DCnum(T) == << SumOver(T, [t \in T |-> TriDet(t) * (t[1][1] + t[2][1] + t[3][1])]),
               SumOver(T, [t \in T |-> TriDet(t) * (t[1][2] + t[2][2] + t[3][2])]) >>

\* integral over a triangle of u*v (u, v coordinate functions k, l) = det/24 * (sum u_i v_i + sum u_i * sum v_i)
TriMom24(t, k, l) == TriDet(t) * ( t[1][k] * t[1][l] + t[2][k] * t[2][l] + t[3][k] * t[3][l]
                                  + (t[1][k] + t[2][k] + t[3][k]) * (t[1][l] + t[2][l] + t[3][l]) )
\* 24 * integral of x_k x_l over the polygon
DMom24(T, k, l) == SumOver(T, [t \in T |-> TriMom24(t, k, l)])

\* orientation of the vertex cycle about +z, decided by the interior: the polygon is counter-clockwise
\* iff its interior lies to the left of its first edge, i.e. iff the triangle of T that contains the
\* first edge has its third vertex on the left of it.
DCcw(poly, T) ==
    LET a == poly[1]  b == poly[2]
        t == CHOOSE u \in T : {a, b} \subseteq {u[1], u[2], u[3]}
        c == CHOOSE p \in {t[1], t[2], t[3]} : p # a /\ p # b
    IN Orient2(a, b, c) > 0

(* ---- membership by crossing parity (points and polygon in the same integer frame) ---- *)
OnBoundary(p, poly) == \E i \in 1..Len(poly) : OnSegment(p, poly[i], poly[Nxt(i, Len(poly))])

Crossings(p, poly) ==
    LET n == Len(poly) IN
    Cardinality({ i \in 1..n :
        LET a == poly[i]  b == poly[Nxt(i, n)] IN
        /\ (a[2] > p[2]) # (b[2] > p[2])
        /\ Sgn(Orient2(a, b, p)) = Sgn(b[2] - a[2]) })

\* 1 = strictly inside, 0 = strictly outside, 2 = on the boundary (never asserted)
DMember(p, poly) == IF OnBoundary(p, poly) THEN 2 ELSE Crossings(p, poly) % 2

\* membership through the triangulation (second, independent definition; T1 checks they agree)
InTriClosed(p, t) == Orient2(t[1], t[2], p) >= 0 /\ Orient2(t[2], t[3], p) >= 0 /\ Orient2(t[3], t[1], p) >= 0
DMemberT(p, poly, T) == IF OnBoundary(p, poly) THEN 2 ELSE IF \E t \in T : InTriClosed(p, t) THEN 1 ELSE 0

(* ---- convexity ----------------------------------------------------------------- *)
StrictlyConvexCcw(poly) == \A i \in 1..Len(poly) :
    Orient2(poly[i], poly[Nxt(i, Len(poly))], poly[Nxt(Nxt(i, Len(poly)), Len(poly))]) > 0
=============================================================================
