------------------------------- MODULE Prism3 -------------------------------
(***************************************************************************)
(* Right prisms over the polygon states of Polygon2 (its behaviours are    *)
(* reused unchanged): a closed mesh whose two caps are single, generally   *)
(* NON-CONVEX faces (the faces that Polyhedron hands to the ear-clipping   *)
(* triangulation) and whose sides are quadrilaterals.                      *)
(*                                                                         *)
(*  layer D : V = A h, centroid = (c_x, c_y, h/2), second moments from the *)
(*            polygon's exact moments (Fubini), membership = polygon       *)
(*            membership and 0 < z < h                                     *)
(*  layer A : the divergence-theorem sums over the surface triangles of    *)
(*            the mesh (what polyhedron.py computes once the caps are      *)
(*            triangulated), over the growth triangulation                 *)
(*  T1      : A = D, which also proves that the emitted mesh is closed and *)
(*            outward oriented for either orientation of the cycle         *)
(***************************************************************************)
EXTENDS MC_Polygon2

CONSTANT Heights          \* set of positive integer heights

n0 == Len(poly)
Bot(i) == <<poly[i][1], poly[i][2], 0>>
Top(i, h) == <<poly[i][1], poly[i][2], h>>
\* vertex list: bottom ring (indices 0..n-1) then top ring (n..2n-1); faces as 0-based index sequences, outward oriented
CapTop == IF Ccw THEN [i \in 1..n0 |-> n0 + i - 1] ELSE [i \in 1..n0 |-> n0 + (n0 + 1 - i) - 1]
CapBot == IF Ccw THEN [i \in 1..n0 |-> (n0 + 1 - i) - 1] ELSE [i \in 1..n0 |-> i - 1]
Side(i) == LET j == Nxt(i, n0) IN
           IF Ccw THEN <<i - 1, j - 1, n0 + j - 1, n0 + i - 1>> ELSE <<j - 1, i - 1, n0 + i - 1, n0 + j - 1>>

\* the caps cut into the triangles of the growth triangulation (convex faces only), outward oriented
Idx(p) == CHOOSE i \in 1..n0 : poly[i] = p
TriTop == {<<n0 + Idx(t[1]) - 1, n0 + Idx(t[2]) - 1, n0 + Idx(t[3]) - 1>> : t \in tris}
TriBot == {<<Idx(t[1]) - 1, Idx(t[3]) - 1, Idx(t[2]) - 1>> : t \in tris}

(* ---- layer D ---- *)
PVol2(h) == DArea2(tris) * h                                   \* 2 V
\* centroid = <<cnum_x, cnum_y, 3 area2 h / 2>> / (3 area2): numerators over 6 area2
PCen6(h) == << 2 * DCnum(tris)[1], 2 * DCnum(tris)[2], 3 * DArea2(tris) * h >>
\* 24 x second moments about the origin (z runs over 0..h)
PMom24(h) == LET A2 == DArea2(tris)  c == DCnum(tris) IN
    << << h * DMom24(tris, 1, 1), h * DMom24(tris, 1, 2), 2 * h * h * c[1] >>,
       << h * DMom24(tris, 1, 2), h * DMom24(tris, 2, 2), 2 * h * h * c[2] >>,
       << 2 * h * h * c[1],       2 * h * h * c[2],       4 * A2 * h * h * h >> >>
\* membership of a half-lattice point (doubled frame): 1 inside, 0 outside, 2 on the surface
PMember(q, h) == LET m == DMember(<<q[1], q[2]>>, Dbl(poly)) IN
    IF q[3] < 0 \/ q[3] > 2 * h \/ m = 0 THEN 0
    ELSE IF m = 2 \/ q[3] = 0 \/ q[3] = 2 * h THEN 2 ELSE 1

(* ---- layer A: signed tetrahedra over the surface triangles ---- *)
Lift(p, z) == <<p[1], p[2], z>>
\* surface triangles, outward: caps from the growth triangulation (its triangles are counter-clockwise seen from +z)
SurfTris(h) ==
    {<<Lift(t[1], h), Lift(t[2], h), Lift(t[3], h)>> : t \in tris}
    \cup {<<Lift(t[1], 0), Lift(t[3], 0), Lift(t[2], 0)>> : t \in tris}
    \cup UNION {LET i == k  j == Nxt(k, n0)
                    a == IF Ccw THEN poly[i] ELSE poly[j]
                    b == IF Ccw THEN poly[j] ELSE poly[i]
                IN {<<Lift(a, 0), Lift(b, 0), Lift(b, h)>>, <<Lift(a, 0), Lift(b, h), Lift(a, h)>>} : k \in 1..n0}
AVol6(h) == SumOver(SurfTris(h), [t \in SurfTris(h) |-> Det3(t[1], t[2], t[3])])
\* first moments: int x_k dV = (1/24) sum det * (a_k + b_k + c_k)
ACen24(h, k) == SumOver(SurfTris(h), [t \in SurfTris(h) |-> Det3(t[1], t[2], t[3]) * (t[1][k] + t[2][k] + t[3][k])])
\* second moments: int x_k x_l dV = (1/120) sum det * (sum_i v_i^k v_i^l + (sum_i v_i^k)(sum_i v_i^l))
AMom120(h, k, l) == SumOver(SurfTris(h), [t \in SurfTris(h) |->
    Det3(t[1], t[2], t[3]) * ( t[1][k] * t[1][l] + t[2][k] * t[2][l] + t[3][k] * t[3][l]
                               + (t[1][k] + t[2][k] + t[3][k]) * (t[1][l] + t[2][l] + t[3][l]) )])

\* the mesh's faces as point cycles agree with the surface triangles: each cap cycle is the polygon cycle at its height
\* in the orientation that makes the cap outward, each side quad is spanned by its two triangles
T1_Prism == \A h \in Heights :
    /\ AVol6(h) = 3 * PVol2(h)
    /\ \A k \in 1..3 : ACen24(h, k) * DArea2(tris) = 2 * PCen6(h)[k] * PVol2(h)     \* int x_k dV = c_k V
    /\ \A k, l \in 1..3 : 24 * AMom120(h, k, l) = 120 * PMom24(h)[k][l]

PQSeq(h) == LET w == 2 * G + 3 IN
    [k \in 1..w * w * (2 * h + 3) |-> << ((k - 1) \div (w * (2 * h + 3))) - 1, (((k - 1) \div (2 * h + 3)) % w) - 1, ((k - 1) % (2 * h + 3)) - 1 >>]

PrismRecord(h) ==
    [ k |-> "prism", poly |-> poly, ccw |-> Ccw, h |-> h,
      v |-> [i \in 1..2 * n0 |-> IF i <= n0 THEN Bot(i) ELSE Top(i - n0, h)],
      top |-> CapTop, bot |-> CapBot, sides |-> [i \in 1..n0 |-> Side(i)], tritop |-> TriTop, tribot |-> TriBot,
      reflex |-> Cardinality({i \in 1..n0 : (IF Ccw THEN 1 ELSE -1) * Orient2(poly[Prv(i, n0)], poly[i], poly[Nxt(i, n0)]) < 0}),
      vol2 |-> PVol2(h), area2 |-> DArea2(tris), edge2 |-> [i \in 1..n0 |-> Dist2sq(poly[i], poly[Nxt(i, n0)])],
      cen6 |-> PCen6(h), mom24 |-> PMom24(h),
      q2 |-> PQSeq(h), mem |-> [k \in 1..Len(PQSeq(h)) |-> PMember(PQSeq(h)[k], h)] ]

PrismEmit == EmitOn => \A h \in Heights : PrintT(ToJson(PrismRecord(h)))
=============================================================================
