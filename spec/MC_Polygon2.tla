---------------------------- MODULE MC_Polygon2 ----------------------------
(* Named non-convex lattice polygons (counter-clockwise), used as the Seeds of Polygon2: shapes with many reflex      *)
(* corners that the ear-growth machine reaches only at depths beyond the exhaustive bound.  Every seed goes through    *)
(* the same invariants (TypeOK: simple, triangulated; T1: layer A = layer D) as the grown states.                       *)
EXTENDS Polygon2, NamedPolygons

Named == {Comb12, Comb16, Saw10, Spiral14, Zig8, Star8, Plus12, U8, T8, L6}
\* a single triangle: random growth (-simulate) starts here instead of at every lattice triangle
Tri0 == { << <<1, 1>>, <<3, 1>>, <<1, 2>> >> }
NamedSmall == {Comb12, Saw10, Zig8, U8}
=============================================================================
