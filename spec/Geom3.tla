------------------------------- MODULE Geom3 -------------------------------
(***************************************************************************)
(* Layer D for convex polytopes given as a finite set V of integer points  *)
(* in convex position (every point is a vertex of the hull): facets,       *)
(* outward normals, counter-clockwise cycles, ridge adjacency, edges, and  *)
(* volume / centroid / second moments by exact integration over the cone   *)
(* decomposition from the origin.  Nothing here refers to coxeter.         *)
(***************************************************************************)
EXTENDS Exact, SequencesExt

Collinear3(a, b, c) == Cross3(Sub3(b, a), Sub3(c, a)) = <<0, 0, 0>>

\* a, b, c span a supporting plane of V: no point of V on the positive side
Supporting(a, b, c, V) == ~Collinear3(a, b, c) /\ \A p \in V : Orient3(a, b, c, p) <= 0

OnPlane(a, b, c, V) == {p \in V : Orient3(a, b, c, p) = 0}

\* the facets of conv(V), each as the set of vertices lying on it.  Enumerated over unordered triples
\* (i < j < k in an arbitrary enumeration of V) with both orientations tested, which is what keeps
\* 30..48-point shells affordable in TLC.
OneSided(a, b, c, V) == ~Collinear3(a, b, c) /\ ( (\A p \in V : Orient3(a, b, c, p) <= 0)
                                               \/ (\A p \in V : Orient3(a, b, c, p) >= 0) )
Facets(V) == LET s == SetToSeq(V)  n == Len(s) IN
    { OnPlane(s[t[1]], s[t[2]], s[t[3]], V) :
        t \in {u \in (1..n) \X (1..n) \X (1..n) : u[1] < u[2] /\ u[2] < u[3] /\ OneSided(s[u[1]], s[u[2]], s[u[3]], V)} }

FullDim(V) == \E a, b, c, d \in V : Orient3(a, b, c, d) # 0

\* an (unnormalised) integer outward normal of facet F of conv(V): any three non-collinear points of F,
\* oriented away from a vertex that is not on F
FacetNormal(F, V) ==
    LET a == CHOOSE p \in F : TRUE
        b == CHOOSE p \in F : p # a
        c == CHOOSE p \in F : ~Collinear3(a, b, p)
        n == Cross3(Sub3(b, a), Sub3(c, a))
        w == CHOOSE p \in V : p \notin F
    IN IF Dot3(n, Sub3(w, a)) < 0 THEN n ELSE <<-n[1], -n[2], -n[3]>>

\* primitive outward normal and offset:  n . x = off on the facet, n . x < off inside
Gcd3(n) == Gcd(Gcd(n[1], n[2]), n[3])
PrimNormal(F, V) == LET n == FacetNormal(F, V)  g == Gcd3(n) IN <<n[1] \div g, n[2] \div g, n[3] \div g>>
FacetOffset(F, V) == Dot3(PrimNormal(F, V), CHOOSE p \in F : TRUE)

\* successor of a on the boundary of facet F, counter-clockwise as seen from outside (normal n)
SuccOn(F, n, a) == CHOOSE b \in F \ {a} :
                      \A c \in F \ {a, b} : Dot3(n, Cross3(Sub3(b, a), Sub3(c, a))) > 0

\* the counter-clockwise cycle of F starting from vertex a0, as a sequence
RECURSIVE CycleFrom(_, _, _, _, _)
CycleFrom(F, n, a0, cur, acc) ==
    LET nx == SuccOn(F, n, cur) IN
    IF nx = a0 THEN acc ELSE CycleFrom(F, n, a0, nx, Append(acc, nx))
Cycle(F, V, a0) == CycleFrom(F, FacetNormal(F, V), a0, a0, <<a0>>)

\* fan triangulation of a cycle from its first vertex: sequence of outward-oriented triangles
Fan(cyc) == [k \in 1..Len(cyc) - 2 |-> <<cyc[1], cyc[k + 1], cyc[k + 2]>>]

\* all fan triangles of conv(V) (each facet fanned from an arbitrary vertex), as a set
SurfaceTris(V) == UNION { LET a0 == CHOOSE p \in F : TRUE IN Rng(Fan(Cycle(F, V, a0))) : F \in Facets(V) }

(* ---- measures: cone decomposition from the origin ------------------------------------- *)
TDet(t) == Det3(t[1], t[2], t[3])
\* 6 * volume
Vol6(T) == SumOver(T, [t \in T |-> TDet(t)])
\* 24 * volume * centroid_k
Cen24(T, k) == SumOver(T, [t \in T |-> TDet(t) * (t[1][k] + t[2][k] + t[3][k])])
\* 120 * integral of x_k x_l over the solid
Mom120(T, k, l) == SumOver(T, [t \in T |->
     TDet(t) * ( t[1][k] * t[1][l] + t[2][k] * t[2][l] + t[3][k] * t[3][l]
               + (t[1][k] + t[2][k] + t[3][k]) * (t[1][l] + t[2][l] + t[3][l]) )])

\* squared doubled area of a facet: |sum of fan cross products|^2  (area = sqrt / 2)
FacetCross(cyc) == LET f == Fan(cyc)
                       c == [k \in 1..Len(f) |-> Cross3(Sub3(f[k][2], f[k][1]), Sub3(f[k][3], f[k][1]))]
                   IN << SumOver(1..Len(f), [k \in 1..Len(f) |-> c[k][1]]),
                         SumOver(1..Len(f), [k \in 1..Len(f) |-> c[k][2]]),
                         SumOver(1..Len(f), [k \in 1..Len(f) |-> c[k][3]]) >>

\* facet centroid: sum over fan triangles of (signed area along n) * (a+b+c)/3 / total
\* returned as numerators (3 components) over the denominator 3 * (n . FacetCross)
FacetCenNum(cyc, n) == LET f == Fan(cyc)
                           w == [k \in 1..Len(f) |-> Dot3(n, Cross3(Sub3(f[k][2], f[k][1]), Sub3(f[k][3], f[k][1])))]
                       IN [j \in 1..3 |-> SumOver(1..Len(f), [k \in 1..Len(f) |->
                                             w[k] * (f[k][1][j] + f[k][2][j] + f[k][3][j])])]

(* ---- combinatorics ---------------------------------------------------------------------- *)
\* facet edges as unordered pairs of points
FacetEdges(F, V) == LET a0 == CHOOSE p \in F : TRUE  c == Cycle(F, V, a0) IN
                      {{c[i], c[Nxt(i, Len(c))]} : i \in 1..Len(c)}
Edges(V) == UNION {FacetEdges(F, V) : F \in Facets(V)}
Adjacent(F1, F2, V) == F1 # F2 /\ FacetEdges(F1, V) \cap FacetEdges(F2, V) # {}
=============================================================================
