------------------------------- MODULE Ctor2 -------------------------------
(***************************************************************************)
(* C15 for the planar classes: the space of constructor inputs is the set  *)
(* of vertex SEQUENCES (duplicates allowed) over a small lattice, grown by *)
(* appending a point; the classifier says for each input whether the       *)
(* class's defining condition clearly holds, clearly fails, or is within   *)
(* the margin of the decision boundary (touching configurations), in exact *)
(* integer arithmetic (Geom2).                                             *)
(***************************************************************************)
EXTENDS Geom2, Json, TLC

CONSTANTS G, MinLen, MaxLen, EmitOn
VARIABLE seq
vars == <<seq>>
Pts == (0..G) \X (0..G)

Init == \E a, b \in Pts : seq = <<a, b>>
Append1(p) == Len(seq) < MaxLen /\ seq' = Append(seq, p)
Next == \E p \in Pts : Append1(p)
Spec == Init /\ [][Next]_vars

(* ---- Polygon --------------------------------------------------------------------------- *)
n == Len(seq)
HasDup == \E i, j \in 1..n : i < j /\ seq[i] = seq[j]
ProperCross(a, b, c, d) == Sgn(Orient2(a, b, c)) * Sgn(Orient2(a, b, d)) < 0 /\ Sgn(Orient2(c, d, a)) * Sgn(Orient2(c, d, b)) < 0
\* two collinear segments sharing more than a point
Overlap(a, b, c, d) == /\ Orient2(a, b, c) = 0 /\ Orient2(a, b, d) = 0
                       /\ \E p \in {a, b} : OnSegment(p, c, d) /\ p \notin {c, d}
\* only transversal crossings in interior points of both edges are CLEARLY invalid; collinear overlaps and vertices
\* touching an edge sit on the decision boundary (an arbitrarily small perturbation makes them simple or crossing)
ClearlyCrossing == \E i, j \in 1..n : i < j /\
    LET a == seq[i]  b == seq[Nxt(i, n)]  c == seq[j]  d == seq[Nxt(j, n)] IN ProperCross(a, b, c, d)
StraightAngle == \E i \in 1..n : Orient2(seq[i], seq[Nxt(i, n)], seq[Nxt(Nxt(i, n), n)]) = 0
PolygonVerdict == IF n < 3 \/ HasDup \/ ClearlyCrossing THEN "invalid"
                  ELSE IF Simple(seq) /\ ~StraightAngle THEN "valid" ELSE "unclear"

(* ---- ConvexPolygon: a condition on the point SET ------------------------------------------ *)
S == Rng(seq)
\* p is a strict vertex of the hull of S: some closed half-plane through p contains S and touches it only in p
StrictVertex(p) == \E q \in S \ {p} :
                      \/ \A r \in S \ {p, q} : Orient2(p, q, r) > 0
                      \/ \A r \in S \ {p, q} : Orient2(p, q, r) < 0
\* p is strictly inside the hull of the others: inside a triangle of other points
StrictlyInside(p) == \E a, b, c \in S \ {p} : Orient2(a, b, c) > 0 /\ Orient2(a, b, p) > 0 /\ Orient2(b, c, p) > 0 /\ Orient2(c, a, p) > 0
ConvexVerdict == IF n < 3 \/ HasDup \/ (\E p \in S : StrictlyInside(p)) THEN "invalid"
                 ELSE IF (\A p \in S : StrictVertex(p)) /\ (\E a, b, c \in S : Orient2(a, b, c) # 0) THEN "valid"
                 ELSE "unclear"
\* expected stored order for valid convex input: counter-clockwise (about +z) from the first input vertex
SuccCcw(a) == CHOOSE b \in S \ {a} : \A c \in S \ {a, b} : Orient2(a, b, c) > 0
RECURSIVE CcwFrom(_, _)
CcwFrom(cur, acc) == LET nx == SuccCcw(cur) IN IF nx = seq[1] THEN acc ELSE CcwFrom(nx, Append(acc, nx))
CcwOrder == CcwFrom(seq[1], <<seq[1]>>)

Record == [k |-> "ctor2", v |-> seq, pv |-> PolygonVerdict, cv |-> ConvexVerdict,
           ccw |-> IF ConvexVerdict = "valid" THEN CcwOrder ELSE <<>>]
Emit == (EmitOn /\ n >= MinLen) => PrintT(ToJson(Record))

\* T1: the two classifiers are consistent: a valid convex set listed in its ccw order is a valid simple polygon
T1_ConvexIsSimple == ConvexVerdict = "valid" => Simple(CcwOrder) /\ StrictlyConvexCcw(CcwOrder)
T1_ValidIsNotInvalid == ~(PolygonVerdict = "valid" /\ ClearlyCrossing)
=============================================================================
