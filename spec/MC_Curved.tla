----------------------------- MODULE MC_Curved -----------------------------
EXTENDS Curved
\* 1/40 and 1/1000 against the other bases give needles of aspect ratio up to 2000 (the property speaks of needle/disc limits)
BasesQ == {<<1, 1>>, <<5, 3>>, <<1, 2>>, <<1, 1000>>, <<1000, 1>>}        \* aspect ratios up to 1e6 (needles and discs)
BasesT == {<<1, 1>>, <<2, 1>>, <<1, 2>>, <<5, 3>>, <<10, 1>>, <<3, 5>>, <<1, 40>>, <<1, 1000>>, <<1000, 1>>}
EpsQ == {0, 12}
EpsT == {0, 9, 15}
CentresQ == { <<<<0, 1>>, <<0, 1>>, <<0, 1>>>>, <<<<3, 1>>, <<-5, 2>>, <<7, 3>>>>, <<<<-20, 1>>, <<11, 1>>, <<-4, 1>>>> }
\* (the thorough tier multiplies bases and near-tie exponents; five centres keep the emission below 30 000 records, each of
\* which carries the series and AGM terms - the unbounded product needed more than 38 GB in the harness)
CentresT == CentresQ \cup { <<<<-1, 3>>, <<-2, 1>>, <<-9, 4>>>>, <<<<0, 1>>, <<-30, 1>>, <<1, 7>>>> }
ClassesAll == {"Circle", "Ellipse", "Sphere", "Ellipsoid"}
ScalesQ == {-7, -3, 0, 3}          \* 1e-7: absolute tolerances (1e-8) are a tenth of the shape
ScalesT == {-7, -3, -1, 0, 2, 3}
=============================================================================
