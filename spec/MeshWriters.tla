----------------------------- MODULE MeshWriters -----------------------------
(***************************************************************************)
(* C20, layer A and T1: transcriptions of the writers of coxeter/io.py as  *)
(* token-line generators for an abstract mesh (vertex i has the three      *)
(* coordinate ids 3i, 3i+1, 3i+2), and the design-level theorem that the   *)
(* readers of MeshFormats accept what the writers produce and reconstruct  *)
(* the mesh:  Why_f(Write_f(m)) = "ok"  for every mesh of a small universe *)
(* (OFF: exactly the named deviation Dev_OffFaceCountPrefix).  Deliberately *)
(* wrong writers (0-based OBJ indices, VTK size without the count words,   *)
(* X3D without the final -1) must be rejected: the theorem is not vacuous. *)
(***************************************************************************)
EXTENDS MeshFormats

VARIABLE m
wvars == <<m, t, rejects>>
Tw(s) == [w |-> s]
Ti(n) == [i |-> n]
Tf(k) == [f |-> k]
Tc(s) == [c |-> s]
VertexLine(k, prefix) == prefix \o <<Tf(3 * k), Tf(3 * k + 1), Tf(3 * k + 2)>>
FaceInts(f, base) == [j \in 1..Len(f) |-> Ti(f[j] + base)]
Table(nv) == [k \in 1..nv |-> <<3 * (k - 1), 3 * (k - 1) + 1, 3 * (k - 1) + 2>>]

\* the universe: a tetrahedron, a square pyramid and a triangular prism as index meshes (orientation irrelevant here)
Meshes == { [nv |-> 4, faces |-> << <<0, 2, 1>>, <<0, 1, 3>>, <<1, 2, 3>>, <<2, 0, 3>> >>, ne |-> 6],
            [nv |-> 5, faces |-> << <<0, 3, 2, 1>>, <<0, 1, 4>>, <<1, 2, 4>>, <<2, 3, 4>>, <<3, 0, 4>> >>, ne |-> 8],
            [nv |-> 6, faces |-> << <<0, 2, 1>>, <<3, 4, 5>>, <<0, 1, 4, 3>>, <<1, 2, 5, 4>>, <<2, 0, 3, 5>> >>, ne |-> 9] }
Trace(fmt, lines, mm) == [tid |-> 0, fmt |-> fmt, lines |-> lines, table |-> Table(mm.nv), faces |-> mm.faces,
                          nedges |-> mm.ne, pts |-> <<>>, nsign |-> <<>>]

\* io.to_obj: header comments, blank, "v x y z" per vertex, blank, "f i+1 ..." per face
WriteObj(mm, base) == << <<Tc("#"), Tw("wavefront")>>, <<Tc("#"), Tw("ConvexPolyhedron")>>, <<>> >>
                      \o [k \in 1..mm.nv |-> VertexLine(k - 1, <<Tw("v")>>)] \o << <<>> >>
                      \o [k \in 1..Len(mm.faces) |-> <<Tw("f")>> \o FaceInts(mm.faces[k], base)]
\* io.to_off: "OFF", comments, counts line "nv f<nf> ne", vertices, "k i1 .. ik"
WriteOff(mm) == << <<Tw("OFF")>>, <<Tc("#"), Tw("OFF")>>, <<Tc("#"), Tw("ConvexPolyhedron")>>,
                   <<Ti(mm.nv), Tw("f<nf>"), Ti(mm.ne)>> >>
                \o [k \in 1..mm.nv |-> VertexLine(k - 1, <<>>)]
                \o [k \in 1..Len(mm.faces) |-> <<Ti(Len(mm.faces[k]))>> \o FaceInts(mm.faces[k], 0)]
\* io.to_ply
WritePly(mm) == << <<Tw("ply")>>, <<Tw("format"), Tw("ascii"), Tf(-1)>>, <<Tw("comment"), Tw("PLY")>>, <<Tw("comment"), Tw("ConvexPolyhedron")>>,
                   <<Tw("element"), Tw("vertex"), Ti(mm.nv)>>, <<Tw("property"), Tw("float"), Tw("x")>>,
                   <<Tw("property"), Tw("float"), Tw("y")>>, <<Tw("property"), Tw("float"), Tw("z")>>,
                   <<Tw("element"), Tw("face"), Ti(Len(mm.faces))>>,
                   <<Tw("property"), Tw("list"), Tw("uchar"), Tw("uint"), Tw("vertex_indices")>>, <<Tw("end_header")>> >>
                \o [k \in 1..mm.nv |-> VertexLine(k - 1, <<>>)]
                \o [k \in 1..Len(mm.faces) |-> <<Ti(Len(mm.faces[k]))>> \o FaceInts(mm.faces[k], 0)]
\* io.to_vtk
WriteVtk(mm, withCounts) ==
    << <<Tc("#"), Tw("vtk"), Tw("DataFile"), Tw("Version"), Tf(-1)>>, <<Tw("ConvexPolyhedron"), Tw("created"), Tw("by")>>,
       <<Tw("ASCII")>>, <<Tw("DATASET"), Tw("POLYDATA")>>, <<Tw("POINTS"), Ti(mm.nv), Tw("float")>> >>
    \o [k \in 1..mm.nv |-> VertexLine(k - 1, <<>>)]
    \o << <<Tw("POLYGONS"), Ti(Len(mm.faces)), Ti((IF withCounts THEN Len(mm.faces) ELSE 0) + SumLens(mm.faces))>> >>
    \o [k \in 1..Len(mm.faces) |-> <<Ti(Len(mm.faces[k]))>> \o FaceInts(mm.faces[k], 0)]
\* io.to_x3d: coordIndex = 0, 1, ... with -1 after every face; point = the coordinates of every face vertex in turn
RECURSIVE CoordIdx(_, _, _)
CoordIdx(fs, start, terminate) == IF fs = <<>> THEN <<>> ELSE
    [j \in 1..Len(Head(fs)) |-> Ti(start + j - 1)] \o (IF Len(fs) > 1 \/ terminate THEN <<Ti(-1)>> ELSE <<>>)
    \o CoordIdx(Tail(fs), start + Len(Head(fs)), terminate)
RECURSIVE PointToks(_)
PointToks(fs) == IF fs = <<>> THEN <<>> ELSE
    LET f == Head(fs) IN
    (LET RECURSIVE one(_) one(j) == IF j > Len(f) THEN <<>> ELSE <<Tf(3 * f[j]), Tf(3 * f[j] + 1), Tf(3 * f[j] + 2)>> \o one(j + 1) IN one(1))
    \o PointToks(Tail(fs))
WriteX3d(mm, prefix, terminate) ==
    << <<Tw(prefix \o "x3d"), Tw("profile"), Tw("Interchange")>>, <<Tw(prefix \o "x3d"), Tw("version"), Tf(-1)>>,
       <<Tw(prefix \o "x3d/Scene/shape"), Tw("DEF"), Tw("ConvexPolyhedron")>>,
       <<Tw(prefix \o "x3d/Scene/shape/IndexedFaceSet"), Tw("coordIndex")>> \o CoordIdx(mm.faces, 0, terminate),
       <<Tw(prefix \o "x3d/Scene/shape/IndexedFaceSet/Coordinate"), Tw("point")>> \o PointToks(mm.faces) >>

WInit == m \in Meshes /\ t = 0 /\ rejects = 0
WNext == FALSE /\ UNCHANGED wvars
WSpec == WInit /\ [][WNext]_wvars

T1_ReadersAcceptWriters ==
    /\ WhyObj(Trace("OBJ", WriteObj(m, 1), m)) = "ok"
    /\ WhyOff(Trace("OFF", WriteOff(m), m)) = "Dev_OffFaceCountPrefix"          \* the known finding, and nothing else
    /\ WhyPly(Trace("PLY", WritePly(m), m)) = "ok"
    /\ WhyVtk(Trace("VTK", WriteVtk(m, TRUE), m)) = "ok"
    /\ WhyX3d(Trace("X3D", WriteX3d(m, "", TRUE), m)) = "ok"
    /\ WhyHtml(Trace("HTML", WriteX3d(m, "html/body/", TRUE), m)) = "ok"
\* non-vacuity: wrong writers are rejected with the expected clause
T1_WrongWritersRejected ==
    /\ WhyObj(Trace("OBJ", WriteObj(m, 0), m)) = "obj_index_base_1"
    /\ WhyVtk(Trace("VTK", WriteVtk(m, FALSE), m)) = "vtk_polygons_size"
    /\ WhyX3d(Trace("X3D", WriteX3d(m, "", FALSE), m)) = "x3d_last_face_terminated"
    /\ WhyHtml(Trace("HTML", WriteX3d(m, "", TRUE), m)) = "html_contains_x3d"
=============================================================================
