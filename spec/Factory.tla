------------------------------ MODULE Factory ------------------------------
(***************************************************************************)
(* The contract of every shape factory of coxeter.families (get_shape of   *)
(* the parametric and tabulated families, the DOI repositories): the shape *)
(* returned for a key is the shape the key DEFINES, whatever was requested *)
(* or done to earlier results.  Clients own what they receive: shapes are  *)
(* mutable (size and centroid setters), so a factory that hands out a      *)
(* shared or memoised object makes a later request depend on the history.  *)
(*                                                                         *)
(* State: the handles handed out so far, each with its key and whether the *)
(* client has mutated it.  The behaviours (all histories of at most MaxOps *)
(* operations) are replayed against every factory; after every step every  *)
(* un-mutated handle must still equal the definition of its key and every  *)
(* mutated one must show exactly its own mutation.                         *)
(***************************************************************************)
EXTENDS Integers, Sequences, FiniteSets, TLC, Json

CONSTANTS Keys, MaxOps
VARIABLES handles, hist
vars == <<handles, hist>>

Init == handles = <<>> /\ hist = <<>>
Get(k) == /\ Len(hist) < MaxOps
          /\ handles' = Append(handles, [key |-> k, mutated |-> FALSE])
          /\ hist' = Append(hist, [op |-> "get", key |-> k, h |-> Len(handles) + 1])
Mutate(i) == /\ Len(hist) < MaxOps
             /\ ~handles[i].mutated
             /\ handles' = [handles EXCEPT ![i].mutated = TRUE]
             /\ hist' = Append(hist, [op |-> "mutate", key |-> handles[i].key, h |-> i])
Next == (\E k \in Keys : Get(k)) \/ (\E i \in 1..Len(handles) : Mutate(i))
Spec == Init /\ [][Next]_vars

\* the contract, as a property of the model: a request never changes what the client holds, a mutation changes one handle
GetLeavesHandlesAlone == [][\A i \in 1..Len(handles) : handles'[i] = handles[i] \/ hist'[Len(hist')].op = "mutate"]_vars
MutateIsLocal == [][hist'[Len(hist')].op = "mutate" =>
                     \A i \in 1..Len(handles) : i # hist'[Len(hist')].h => handles'[i] = handles[i]]_vars
\* the deviation a memoising factory shows (named, for the canary): Get(k) returns the handle of an earlier Get(k), so
\* after Mutate the next Get(k) is already "mutated"
Dev_Memoised(hs, k) == \E i \in 1..Len(hs) : hs[i].key = k /\ hs[i].mutated

Emit == (Len(hist) = MaxOps) => PrintT(ToJson([k |-> "factory", hist |-> hist, handles |-> handles]))
=============================================================================
