--------------------------- MODULE TraceStructure ---------------------------
(***************************************************************************)
(* T3 (code -> spec) for C07: validates the discrete face / neighbour /    *)
(* edge / simplex structure recorded from real coxeter objects against     *)
(* the definitions of Geom3.  The object is a small state machine:         *)
(*   Convex     - ConvexPolyhedron(points) was constructed                 *)
(*   Construct  - Polyhedron(points, faces) was constructed from faces     *)
(*                whose cycles were scrambled / reversed / triangulated    *)
(*   SortFaces  - Polyhedron.sort_faces() returned                         *)
(*   MergeFaces - Polyhedron.merge_faces() returned                        *)
(* Each recorded event carries the full discrete projection after the call *)
(* (faces, neighbors, edges, num_edges[, simplices]); implementation       *)
(* latitude (order of faces, start vertex of a cycle, which triangulation) *)
(* is nondeterminism of the spec, mirror images and stale caches are not.  *)
(* The harness batches many traces per JVM; every trace is judged and the  *)
(* first failing clause of a rejected event is printed.                    *)
(***************************************************************************)
EXTENDS Geom3, Json, IOUtils, TLC

Traces == JsonDeserialize(IOEnv.TRACE_FILE)

VARIABLES t,        \* index of the trace being validated
          l,        \* index of the next event in that trace
          faces,    \* abstract state: the current face list (sequence of 1-based cycles) of the object
          sorted,   \* TRUE once the face cycles are known to be outward counter-clockwise
          rejects   \* number of rejected events so far
vars == <<t, l, faces, sorted, rejects>>

P(tr) == tr.pts                                            \* sequence of integer points
VSet(tr) == Rng(P(tr))
Cyc1(f) == [k \in 1..Len(f) |-> f[k] + 1]                  \* 0-based JSON indices -> 1-based
PtsOf(tr, f) == {P(tr)[f[k] + 1] : k \in 1..Len(f)}

\* cycle c (sequence of points) is a rotation of cycle d
IsRotation(c, d) == Len(c) = Len(d) /\ \E k \in 0..Len(c) - 1 : Rot(d, k) = c

\* the recorded face f is the outward counter-clockwise cycle of a facet of conv(V)
OutwardFacetCycle(tr, f) ==
    LET V == VSet(tr)  F == PtsOf(tr, f)  c == [k \in 1..Len(f) |-> P(tr)[f[k] + 1]] IN
    /\ Cardinality(F) = Len(f)
    /\ F \in Facets(V)
    /\ IsRotation(c, Cycle(F, V, c[1]))

EdgeSetOfFaces(fs) == UNION { {{fs[i][k], fs[i][Nxt(k, Len(fs[i]))]} : k \in 1..Len(fs[i])} : i \in 1..Len(fs) }
FaceEdgeSet(f) == {{f[k], f[Nxt(k, Len(f))]} : k \in 1..Len(f)}

\* clauses judged on an event that reports a complete outward structure
Why_Structure(tr, e) ==
    LET V == VSet(tr)  fs == e.faces  nf == Len(fs) IN
    IF {PtsOf(tr, fs[i]) : i \in 1..nf} # Facets(V) \/ nf # Cardinality(Facets(V)) THEN "faces_are_hull_facets"
    ELSE IF \E i \in 1..nf : ~OutwardFacetCycle(tr, fs[i]) THEN "faces_ccw_outward"
    ELSE IF \E i \in 1..nf : Rng(e.neighbors[i]) # {j - 1 : j \in {j \in 1..nf : j # i /\ FaceEdgeSet(fs[i]) \cap FaceEdgeSet(fs[j]) # {}}}
         THEN "neighbors_share_an_edge"
    ELSE IF \E i \in 1..nf : Len(e.neighbors[i]) # Cardinality(Rng(e.neighbors[i])) THEN "neighbors_no_duplicates"
    ELSE IF \E i, j \in 1..nf : ((j - 1) \in Rng(e.neighbors[i])) # ((i - 1) \in Rng(e.neighbors[j])) THEN "neighbors_symmetric"
    ELSE IF {{ed[1], ed[2]} : ed \in Rng(e.edges)} # EdgeSetOfFaces(fs) THEN "edges_are_the_face_edges"
    ELSE IF Len(e.edges) # Cardinality(EdgeSetOfFaces(fs)) THEN "edges_each_once"
    ELSE IF \E k \in 1..Len(e.edges) : e.edges[k][1] >= e.edges[k][2] THEN "edges_i_lt_j"
    ELSE IF \E k \in 1..Len(e.edges) - 1 :
              ~(e.edges[k][1] < e.edges[k + 1][1] \/ (e.edges[k][1] = e.edges[k + 1][1] /\ e.edges[k][2] < e.edges[k + 1][2]))
         THEN "edges_sorted"
    ELSE IF e.num_edges # Len(e.edges) THEN "num_edges"
    ELSE IF Cardinality(V) - Len(e.edges) + nf # 2 THEN "euler"
    ELSE "ok"

\* simplices triangulate the facets: each simplex lies in one facet, is outward oriented, and per facet the
\* (integer) doubled areas add up to the doubled facet area
Why_Simplices(tr, e) ==
    LET V == VSet(tr)  Fs == Facets(V)  ss == e.simplices
        pt(s, k) == P(tr)[s[k] + 1]
        host(s) == {F \in Fs : {pt(s, 1), pt(s, 2), pt(s, 3)} \subseteq F}
        ncr(s) == Cross3(Sub3(pt(s, 2), pt(s, 1)), Sub3(pt(s, 3), pt(s, 1)))
    IN
    IF \E k \in 1..Len(ss) : Cardinality(host(ss[k])) # 1 THEN "simplex_in_one_facet"
    ELSE IF \E k \in 1..Len(ss) : LET F == CHOOSE G \in host(ss[k]) : TRUE IN Dot3(ncr(ss[k]), FacetNormal(F, V)) <= 0
         THEN "simplex_outward"
    ELSE IF \E F \in Fs :
            LET n == PrimNormal(F, V)
                mine == {k \in 1..Len(ss) : host(ss[k]) = {F}}
                a0 == CHOOSE p \in F : TRUE
            IN SumOver(mine, [k \in mine |-> Dot3(n, ncr(ss[k]))]) # Dot3(n, FacetCross(Cycle(F, V, a0)))
         THEN "simplices_tile_the_facet"
    ELSE "ok"

\* a constructed Polyhedron keeps the faces it was given
Why_Construct(tr, e) == IF e.faces # tr.given THEN "construct_keeps_faces" ELSE "ok"

Why(tr, e) ==
    CASE e.ev = "convex"      -> LET w == Why_Structure(tr, e) IN IF w # "ok" THEN w ELSE Why_Simplices(tr, e)
      [] e.ev = "construct"   -> Why_Construct(tr, e)
      [] e.ev = "sort_faces"  -> IF Len(e.faces) # Len(faces) THEN "sort_faces_keeps_face_count" ELSE Why_Structure(tr, e)
      [] e.ev = "merge_faces" -> Why_Structure(tr, e)
      [] OTHER -> "unknown_event"

Init == t = 1 /\ l = 1 /\ faces = <<>> /\ sorted = FALSE /\ rejects = 0

Step ==
    /\ t <= Len(Traces)
    /\ LET tr == Traces[t]  e == tr.events[l]  w == Why(tr, e) IN
        /\ IF w = "ok" THEN rejects' = rejects
           ELSE PrintT(ToJson([k |-> "reject", tid |-> tr.tid, ev |-> e.ev, l |-> l, why |-> w])) /\ rejects' = rejects + 1
        /\ faces' = e.faces
        /\ sorted' = (l < Len(tr.events) /\ e.ev # "construct")      \* reset at the end of a trace
        /\ IF l < Len(tr.events) THEN l' = l + 1 /\ t' = t ELSE l' = 1 /\ t' = t + 1

Next == Step
Spec == Init /\ [][Next]_vars

\* once an object reported a sorted structure, later events keep it sorted (no operation un-sorts faces)
StaysSorted == [][sorted /\ t' = t => sorted']_vars

AllConsumed == t = Len(Traces) + 1 => TRUE
Accepted == rejects = 0
Done == TLCGet("stats").diameter >= 1
=============================================================================
