------------------------------ MODULE Placement ------------------------------
(***************************************************************************)
(* C09: how every observable must transform under a similarity             *)
(* g : x -> s R x + t  and under relabelling.  The law table (observable   *)
(* -> kind) is emitted for the harness; T1 checks the laws against the     *)
(* definitions of Geom3 on the lattice symmetry group (the 24 proper       *)
(* signed permutation matrices, integer translations, integer scalings),   *)
(* where g.x is again a lattice polytope and everything stays exact.       *)
(***************************************************************************)
EXTENDS Geom3, Json, TLC

CONSTANTS U, MaxPts, Shifts, Scales
VARIABLES V, g
vars == <<V, g>>

\* proper signed permutation matrices as <<perm, signs>>: (R x)[i] = signs[i] * x[perm[i]]
Perms == {p \in [1..3 -> 1..3] : \A i, j \in 1..3 : i # j => p[i] # p[j]}
Signs == [1..3 -> {-1, 1}]
ParityOf(p) == IF p = <<1, 2, 3>> \/ p = <<2, 3, 1>> \/ p = <<3, 1, 2>> THEN 1 ELSE -1
Proper == {m \in Perms \X Signs : ParityOf(m[1]) * m[2][1] * m[2][2] * m[2][3] = 1}
Rotate(m, x) == [i \in 1..3 |-> m[2][i] * x[m[1][i]]]
Apply(h, x) == Add3(Scale3(h.s, Rotate(h.m, x)), h.t)
Image(h, S) == {Apply(h, x) : x \in S}

Init == /\ \E a, b, c, d \in U : Orient3(a, b, c, d) > 0 /\ V = {a, b, c, d}
        /\ g \in [m : Proper, t : Shifts, s : Scales]
AddPoint(p) == Cardinality(V) < MaxPts /\ p \notin V /\ V' = V \cup {p} /\ UNCHANGED g
Next == \E p \in U : AddPoint(p)
Spec == Init /\ [][Next]_vars

(* ---- the laws (T1) ------------------------------------------------------------------------ *)
T(S) == SurfaceTris(S)
\* volume scales with s^3
LawVolume == Vol6(T(Image(g, V))) = g.s * g.s * g.s * Vol6(T(V))
\* the first moment (24 V c) transforms as  s^3 (s R (24 V c) + 24 V t)
LawCentroid == \A k \in 1..3 :
    Cen24(T(Image(g, V)), k) = g.s * g.s * g.s * (g.s * Rotate(g.m, <<Cen24(T(V), 1), Cen24(T(V), 2), Cen24(T(V), 3)>>)[k] + 4 * Vol6(T(V)) * g.t[k])
\* facets map to facets, their primitive normals rotate, the offsets become s * off + n' . t
LawFacets == LET W == Image(g, V) IN
    /\ Facets(W) = {Image(g, F) : F \in Facets(V)}
    /\ \A F \in Facets(V) : /\ PrimNormal(Image(g, F), W) = Rotate(g.m, PrimNormal(F, V))
                            /\ FacetOffset(Image(g, F), W) = g.s * FacetOffset(F, V) + Dot3(Rotate(g.m, PrimNormal(F, V)), g.t)
\* second moments about the origin: P' = s^3 ( s^2 R P R^T + s (R m1 t^T + t m1^T R^T) + V t t^T ), m1 = V c; checked for the trace
\* (120 tr P' on both sides; 120 P = Mom120, 24 m1 = Cen24, 6 V = Vol6)
Tr120(S) == Mom120(T(S), 1, 1) + Mom120(T(S), 2, 2) + Mom120(T(S), 3, 3)
LawSecondMoment == Tr120(Image(g, V)) =
    g.s * g.s * g.s * ( g.s * g.s * Tr120(V)
                      + 10 * g.s * Dot3(Rotate(g.m, <<Cen24(T(V), 1), Cen24(T(V), 2), Cen24(T(V), 3)>>), g.t)
                      + 20 * Vol6(T(V)) * Dot3(g.t, g.t) )
T1_Laws == LawVolume /\ LawCentroid /\ LawFacets /\ LawSecondMoment

(* ---- the law table handed to the harness ---------------------------------------------------------- *)
\* kind: how the named observable of g.x follows from the observable of x
LawTable == [
  length |-> {"perimeter", "circumference", "radius", "diameter", "a", "b", "c", "mean_curvature", "edge_lengths",
              "circumsphere_radius", "insphere_radius", "circumcircle_radius", "incircle_radius",
              "minimal_bounding_sphere_radius", "minimal_centered_bounding_sphere_radius", "maximal_bounded_sphere_radius",
              "maximal_centered_bounded_sphere_radius", "minimal_bounding_circle_radius", "minimal_centered_bounding_circle_radius",
              "maximal_bounded_circle_radius", "maximal_centered_bounded_circle_radius"},
  area |-> {"area", "surface_area", "get_face_area()"},
  signedarea |-> {"signed_area"},
  volume |-> {"volume"},
  point |-> {"centroid", "center", "vertices", "face_centroids"},
  vector |-> {"normal", "normals", "edge_vectors"},
  plane |-> {"equations"},
  inertia |-> {"inertia_tensor"},
  polar |-> {"polar_moment_inertia"},
  dimensionless |-> {"iq", "tau", "asphericity", "eccentricity", "num_vertices", "num_faces", "num_edges"},
  index |-> {"faces", "neighbors", "edges"},
  ball |-> {"circumsphere", "insphere", "circumcircle", "incircle", "minimal_bounding_sphere", "minimal_centered_bounding_sphere",
            "maximal_bounded_sphere", "maximal_centered_bounded_sphere", "minimal_bounding_circle",
            "minimal_centered_bounding_circle", "maximal_bounded_circle", "maximal_centered_bounded_circle"},
  frame_dependent |-> {"planar_moments_inertia"} ]
EmitTable == PrintT(ToJson([k |-> "lawtable", t |-> LawTable]))
ViewV == <<V, g>>
=============================================================================
