------------------------------ MODULE Convex3 ------------------------------
(***************************************************************************)
(* Input space of convex lattice polytopes as a state machine (DESIGN 3.3):*)
(* the vertex set V grows by AddPoint from a universe U of lattice points  *)
(* in strictly convex position (points of a lattice shell, or a named      *)
(* solid), so convex position holds by construction.  Off is an integer    *)
(* translation applied to every point (off-origin shapes).                 *)
(* Invariants: T1 theorems "AlgConvex = Geom3" and the combinatorial       *)
(* theorems of C07 (Euler, each edge in two facets, neighbour symmetry).   *)
(***************************************************************************)
EXTENDS Geom3, AlgConvex, Json, TLC

CONSTANTS U,        \* universe: finite set of integer points in strictly convex position
          MinPts, MaxPts,
          Off,      \* integer translation <<ox,oy,oz>>
          EmitOn,
          WithRound,   \* TRUE: records carry the exact squared distance of the surrounding lattice points to the polytope
          WithCurv,    \* TRUE: records carry curvature terms, Steiner formulas and exact ball data (C11, C13)
          WithPoints,  \* TRUE: records carry the membership classification of the lattice points around the solid
          InitAll   \* TRUE: every non-degenerate 4-subset is an initial state; FALSE: one fixed seed (simulation)

VARIABLE V       \* chosen subset of U
vars == <<V>>

Sh(S) == {Add3(p, Off) : p \in S}

Init == IF InitAll THEN \E a, b, c, d \in U : Orient3(a, b, c, d) > 0 /\ V = {a, b, c, d}
        ELSE LET a == CHOOSE p \in U : TRUE
                 b == CHOOSE p \in U : p # a
                 c == CHOOSE p \in U : ~Collinear3(a, b, p)
                 d == CHOOSE p \in U : Orient3(a, b, c, p) # 0
             IN V = {a, b, c, d}
AddPoint(p) == Cardinality(V) < MaxPts /\ p \notin V /\ V' = V \cup {p}
Next == \E p \in U : AddPoint(p)
Spec == Init /\ [][Next]_vars

W == Sh(V)                       \* the actual vertex set
Tris == SurfaceTris(W)           \* outward fan triangles of conv(W)

TypeOK == V \subseteq U /\ FullDim(V)

(* ---- T1: coded algorithms agree with the definitions; structure theorems (C07) ------------- *)
\* One invariant (so that the triangulation and the facets are computed once per state); the name of the
\* first failing clause is printed.
T1_Volume(T)   == AVol6(T) = Vol6(T) /\ Vol6(T) > 0
T1_Centroid(T) == \A k \in 1..3 : ACen48V(T, k) = 2 * Cen24(T, k)
\* inertia about the origin: I_ii = P_jj + P_kk, I_ij = -P_ij   (P = second moments, 120 P = Mom120)
T1_Inertia(T)  == /\ AInn1440(T, 2, 3) = 12 * (Mom120(T, 2, 2) + Mom120(T, 3, 3))
                  /\ AInn1440(T, 1, 3) = 12 * (Mom120(T, 1, 1) + Mom120(T, 3, 3))
                  /\ AInn1440(T, 1, 2) = 12 * (Mom120(T, 1, 1) + Mom120(T, 2, 2))
                  /\ AInm1920(T, 1, 2) = -16 * Mom120(T, 1, 2)
                  /\ AInm1920(T, 1, 3) = -16 * Mom120(T, 1, 3)
                  /\ AInm1920(T, 2, 3) = -16 * Mom120(T, 2, 3)
T1_Euler(Fs, Es) == Cardinality(W) - Cardinality(Es) + Cardinality(Fs) = 2
T1_EdgeTwice(Fs, Es) == \A e \in Es : Cardinality({F \in Fs : e \in FacetEdges(F, W)}) = 2
T1_AllVertices(Fs) == UNION Fs = W        \* convex position: every point lies on some facet

T1_Failing == LET T == Tris  Fs == Facets(W)  Es == UNION {FacetEdges(F, W) : F \in Fs} IN
    IF ~T1_Volume(T) THEN "T1_Volume" ELSE IF ~T1_Centroid(T) THEN "T1_Centroid"
    ELSE IF ~T1_Inertia(T) THEN "T1_Inertia" ELSE IF ~T1_Euler(Fs, Es) THEN "T1_Euler"
    ELSE IF ~T1_EdgeTwice(Fs, Es) THEN "T1_EdgeTwice" ELSE IF ~T1_AllVertices(Fs) THEN "T1_AllVertices" ELSE "none"
T1_All == LET f == T1_Failing IN f = "none" \/ ~PrintT(<<"T1-FAILED", f, V>>)

(* ---- emission -------------------------------------------------------------------------------- *)
\* deterministic order of the vertex list handed to the constructor: lexicographic
LexLt(p, q) == \/ p[1] < q[1] \/ (p[1] = q[1] /\ p[2] < q[2]) \/ (p[1] = q[1] /\ p[2] = q[2] /\ p[3] < q[3])
RECURSIVE SortPts(_)
SortPts(S) == IF S = {} THEN <<>> ELSE
                LET m == CHOOSE p \in S : \A q \in S \ {p} : LexLt(p, q) IN <<m>> \o SortPts(S \ {m})
IndexOf(s, p) == CHOOSE i \in 1..Len(s) : s[i] = p

Record ==
    LET vs == SortPts(W)
        Fs == Facets(W)
        T == UNION { LET a0 == CHOOSE p \in F : TRUE IN Rng(Fan(Cycle(F, W, a0))) : F \in Fs }
        frec(F) == LET n == PrimNormal(F, W)
                       a0 == CHOOSE p \in F : \A q \in F \ {p} : LexLt(p, q)
                       cyc == Cycle(F, W, a0)
                       fc == FacetCross(cyc)
                   IN [ cyc  |-> [i \in 1..Len(cyc) |-> IndexOf(vs, cyc[i]) - 1],   \* 0-based indices, ccw from outside
                        n    |-> n,                         \* primitive outward normal
                        off  |-> FacetOffset(F, W),         \* n . x = off on the facet
                        a2sq |-> Norm3sq(fc),               \* (2 area)^2
                        cnum |-> FacetCenNum(cyc, n),       \* facet centroid = cnum / cden
                        cden |-> 3 * Dot3(n, fc) ]
    IN [ k     |-> "convex",
         v     |-> vs,
         vol6  |-> Vol6(T),
         cen24 |-> <<Cen24(T, 1), Cen24(T, 2), Cen24(T, 3)>>,     \* centroid = cen24 / (4 vol6)
         mom120 |-> << <<Mom120(T, 1, 1), Mom120(T, 1, 2), Mom120(T, 1, 3)>>,
                       <<Mom120(T, 1, 2), Mom120(T, 2, 2), Mom120(T, 2, 3)>>,
                       <<Mom120(T, 1, 3), Mom120(T, 2, 3), Mom120(T, 3, 3)>> >>,
         facets |-> {frec(F) : F \in Fs},
         edges |-> {<<IndexOf(vs, CHOOSE p \in e : \A q \in e \ {p} : LexLt(p, q)) - 1,
                      IndexOf(vs, CHOOSE p \in e : \A q \in e \ {p} : LexLt(q, p)) - 1>> : e \in UNION {FacetEdges(F, W) : F \in Fs}} ]

(* ---- curvature and balls (C11, C13) ---------------------------------------------------------- *)
\* per edge: squared length, and the cosine of the exterior dihedral angle as  dot / sqrt(nn)  with the primitive
\* outward normals n1, n2 of the two facets meeting in the edge:  dot = n1 . n2,  nn = |n1|^2 |n2|^2
EdgeData(Fs) == { LET Fe == {F \in Fs : e \in FacetEdges(F, W)}
                     F1 == CHOOSE F \in Fe : TRUE
                     F2 == CHOOSE F \in Fe : F # F1
                     n1 == PrimNormal(F1, W)  n2 == PrimNormal(F2, W)
                     a == CHOOSE p \in e : TRUE
                     b == CHOOSE p \in e : p # a
                 IN [e |-> e, len2 |-> Norm3sq(Sub3(a, b)), dot |-> Dot3(n1, n2), nn |-> Norm3sq(n1) * Norm3sq(n2)]   \* e keeps equal-valued edges apart
                 : e \in UNION {FacetEdges(F, W) : F \in Fs} }
\* the integrated mean curvature with coxeter's normalisation, as an exact term:
\*   M = sum_edges L_e * (pi - phi_e) / (8 pi),   pi - phi_e = acos(n1.n2 / (|n1||n2|)) the exterior angle
MeanCurvatureTerm(Fs) ==
    LET E == SetToSeq(EdgeData(Fs)) IN
    [div |-> << [sum |-> [i \in 1..Len(E) |-> [mul |-> << [sqrt |-> [q |-> <<E[i].len2, 1>>]],
                                                          [acos |-> [div |-> << [q |-> <<E[i].dot, 1>>], [sqrt |-> [q |-> <<E[i].nn, 1>>]] >>]] >>]]],
                [pi |-> 1, x |-> [q |-> <<8, 1>>]] >>]
\* Steiner formulas for the body rounded by r (refs V, S, M, r are bound by the harness to this record's exact volume,
\* surface area, mean curvature and the chosen rounding radius)
Rf(nm) == [ref |-> nm]
Qn(a, b) == [q |-> <<a, b>>]
SteinerVolume == [sum |-> << Rf("V"), [mul |-> <<Rf("S"), Rf("r")>>],
                             [pi |-> 1, x |-> [mul |-> <<Qn(4, 1), Rf("M"), [pow |-> 2, x |-> Rf("r")]>>]],
                             [pi |-> 1, x |-> [mul |-> <<Qn(4, 3), [pow |-> 3, x |-> Rf("r")]>>]] >>]
SteinerArea == [sum |-> << Rf("S"), [pi |-> 1, x |-> [mul |-> <<Qn(8, 1), Rf("M"), Rf("r")>>]],
                           [pi |-> 1, x |-> [mul |-> <<Qn(4, 1), [pow |-> 2, x |-> Rf("r")]>>]] >>]
SteinerCurvature == [sum |-> <<Rf("M"), Rf("r")>>]
TauTerm == [div |-> << [pi |-> 1, x |-> [mul |-> <<Qn(4, 1), [pow |-> 2, x |-> Rf("M")]>>]], Rf("S") >>]
AsphericityTerm == [div |-> << [mul |-> <<Rf("M"), Rf("S")>>], [mul |-> <<Qn(3, 1), Rf("V")>>] >>]
IqTerm == [div |-> << [pi |-> 1, x |-> [mul |-> <<Qn(36, 1), [pow |-> 2, x |-> Rf("V")]>>]], [pow |-> 3, x |-> Rf("S")] >>]

\* five points are cospherical iff this determinant vanishes (rows p - p0 with the lifted coordinate)
Lift(p, o) == LET d == Sub3(p, o) IN <<d[1], d[2], d[3], Norm3sq(d)>>
Det4(a, b, c, d) == a[1] * Det3(<<b[2], b[3], b[4]>>, <<c[2], c[3], c[4]>>, <<d[2], d[3], d[4]>>)
                  - a[2] * Det3(<<b[1], b[3], b[4]>>, <<c[1], c[3], c[4]>>, <<d[1], d[3], d[4]>>)
                  + a[3] * Det3(<<b[1], b[2], b[4]>>, <<c[1], c[2], c[4]>>, <<d[1], d[2], d[4]>>)
                  - a[4] * Det3(<<b[1], b[2], b[3]>>, <<c[1], c[2], c[3]>>, <<d[1], d[2], d[3]>>)
\* a circumsphere exists iff all vertices are cospherical: fix four non-coplanar ones, test every other
CircumsphereExists ==
    LET o == CHOOSE p \in W : TRUE
        a == CHOOSE p \in W : p # o
        b == CHOOSE p \in W : ~Collinear3(o, a, p)
        c == CHOOSE p \in W : Orient3(o, a, b, p) # 0
    IN \A p \in W : Det4(Lift(a, o), Lift(b, o), Lift(c, o), Lift(p, o)) = 0
\* centred balls about the exact centroid c = cen24 / (4 vol6), scaled by D = 4 vol6 to stay in integers:
\*   minimal centred bounding:  r^2 = max_v |D v - cen24|^2 / D^2
\*   maximal centred bounded:   r = min_F (D off_F - n_F . cen24) / (D |n_F|)
BallData(Fs, T) ==
    LET D == 4 * Vol6(T)
        c == <<Cen24(T, 1), Cen24(T, 2), Cen24(T, 3)>>
        far == CHOOSE v \in W : \A u \in W : Norm3sq(Sub3(Scale3(D, v), c)) >= Norm3sq(Sub3(Scale3(D, u), c))
        gap(F) == D * FacetOffset(F, W) - Dot3(PrimNormal(F, W), c)
    IN [den |-> D, far2 |-> Norm3sq(Sub3(Scale3(D, far), c)),
        \* r_bounded = min over facets of gap / (D sqrt(n2)), emitted as a term (the products would overflow TLC's integers)
        bounded |-> [min |-> {[div |-> <<[q |-> <<gap(F), D>>], [sqrt |-> [q |-> <<Norm3sq(PrimNormal(F, W)), 1>>]]>>] : F \in Fs}],
        circum |-> CircumsphereExists]

(* ---- membership (C05): a lattice point q against the facet half-spaces n.x <= off ------------- *)
\* 1 = strictly inside, 0 = strictly outside, 2 = on the boundary (never asserted)
DMember(q, Fs) == IF \E F \in Fs : Dot3(PrimNormal(F, W), q) > FacetOffset(F, W) THEN 0
                  ELSE IF \E F \in Fs : Dot3(PrimNormal(F, W), q) = FacetOffset(F, W) THEN 2 ELSE 1
Lo(k) == (CHOOSE p \in W : \A r \in W : p[k] <= r[k])[k] - 1
Hi(k) == (CHOOSE p \in W : \A r \in W : p[k] >= r[k])[k] + 1
QPts == LET l1 == Lo(1)  l2 == Lo(2)  l3 == Lo(3)
            n1 == Hi(1) - l1 + 1  n2 == Hi(2) - l2 + 1  n3 == Hi(3) - l3 + 1
        IN [i \in 1..n1 * n2 * n3 |-> << l1 + ((i - 1) \div (n2 * n3)), l2 + (((i - 1) \div n3) % n2), l3 + ((i - 1) % n3) >>]
PointRecord == LET Fs == Facets(W)  QQ == QPts
                   hs == {<<PrimNormal(F, W), FacetOffset(F, W)>> : F \in Fs}
                   mem(q) == IF \E hp \in hs : Dot3(hp[1], q) > hp[2] THEN 0
                             ELSE IF \E hp \in hs : Dot3(hp[1], q) = hp[2] THEN 2 ELSE 1
               IN [q |-> QQ, mem |-> [i \in 1..Len(QQ) |-> mem(QQ[i])]]
CurvRecord == LET Fs == Facets(W) IN
    [mterm |-> MeanCurvatureTerm(Fs), steiner_volume |-> SteinerVolume, steiner_area |-> SteinerArea,
     steiner_curvature |-> SteinerCurvature, tau |-> TauTerm, asphericity |-> AsphericityTerm, iq |-> IqTerm,
     \* the ball data squares centroid-scaled coordinates: only for universes with small coordinates (32-bit integers)
     balls |-> IF \A p \in W : \A k \in 1..3 : Abs(p[k]) <= 20 THEN BallData(Fs, Tris) ELSE [skipped |-> TRUE]]
(* ---- exact distance to the polytope (C05, spheropolyhedra with a general convex core) ------------------ *)
\* squared distance from a lattice point p to conv(W) as a rational <<num, den>>; 0 inside.  Outside, the nearest point
\* lies in the relative interior of a face, of an edge, or is a vertex; each candidate below is an upper bound of the
\* distance and the one of the nearest feature is attained, so the minimum over the valid candidates is exact.
RatLeq(a, b) == a[1] * b[2] <= b[1] * a[2]
RatMin(S) == CHOOSE a \in S : \A b \in S : RatLeq(a, b)
DistSq(p, Fs, Es) ==
    IF \A F \in Fs : Dot3(PrimNormal(F, W), p) <= FacetOffset(F, W) THEN <<0, 1>> ELSE
    LET vert == {<<Norm3sq(Sub3(p, v)), 1>> : v \in W}
        edgeC(e) == LET a == CHOOSE x \in e : TRUE  b == CHOOSE x \in e : x # a
                        u == Sub3(b, a)  w == Sub3(p, a)  tp == Dot3(w, u)  uu == Norm3sq(u) IN
                    IF 0 <= tp /\ tp <= uu THEN {<<Norm3sq(w) * uu - tp * tp, uu>>} ELSE {}
        faceC(F) == LET n == PrimNormal(F, W)  nn == Norm3sq(n)  hh == Dot3(n, p) - FacetOffset(F, W)
                        a0 == CHOOSE x \in F : TRUE
                        cyc == Cycle(F, W, a0)
                        qn == Sub3(Scale3(nn, p), Scale3(hh, n))              \* |n|^2 times the projection of p onto the plane
                        insideF == \A i \in 1..Len(cyc) :
                                      Dot3(n, Cross3(Sub3(cyc[Nxt(i, Len(cyc))], cyc[i]), Sub3(qn, Scale3(nn, cyc[i])))) >= 0 IN
                    IF hh > 0 /\ insideF THEN {<<hh * hh, nn>>} ELSE {}
    IN RatMin(vert \cup UNION {edgeC(e) : e \in Es} \cup UNION {faceC(F) : F \in Fs})
Lo2(k) == (CHOOSE p \in W : \A r \in W : p[k] <= r[k])[k] - 2
Hi2(k) == (CHOOSE p \in W : \A r \in W : p[k] >= r[k])[k] + 2
QPts2 == LET l1 == Lo2(1)  l2 == Lo2(2)  l3 == Lo2(3)
             n1 == Hi2(1) - l1 + 1  n2 == Hi2(2) - l2 + 1  n3 == Hi2(3) - l3 + 1
         IN [i \in 1..n1 * n2 * n3 |-> << l1 + ((i - 1) \div (n2 * n3)), l2 + (((i - 1) \div n3) % n2), l3 + ((i - 1) % n3) >>]
RoundRecord == LET Fs == Facets(W)  Es == UNION {FacetEdges(F, W) : F \in Fs}  QQ == QPts2
               IN [q |-> QQ, d2 |-> [i \in 1..Len(QQ) |-> DistSq(QQ[i], Fs, Es)]]

FullRecord == IF WithRound THEN [r |-> Record, d |-> RoundRecord] ELSE IF WithPoints THEN [r |-> Record, p |-> PointRecord]
              ELSE IF WithCurv THEN [r |-> Record, c |-> CurvRecord] ELSE [r |-> Record]

Emit == (EmitOn /\ Cardinality(V) >= MinPts) => PrintT(ToJson(FullRecord))
ViewV == V
=============================================================================
