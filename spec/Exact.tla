------------------------------- MODULE Exact -------------------------------
(***************************************************************************)
(* Exact arithmetic used by every geometry module of the specification.    *)
(* Integers, 2- and 3-vectors of integers, determinants, and rationals     *)
(* represented as records [n |-> numerator, d |-> denominator] which are   *)
(* NOT normalised: the harness reduces them (fractions.Fraction).  TLC     *)
(* integers are 32 bit and overflow is a TLC error, never a wrong value.   *)
(***************************************************************************)
EXTENDS Integers, Sequences, FiniteSets

Abs(x) == IF x < 0 THEN -x ELSE x
Sgn(x) == IF x > 0 THEN 1 ELSE IF x < 0 THEN -1 ELSE 0
Mx(a, b) == IF a >= b THEN a ELSE b
Mn(a, b) == IF a <= b THEN a ELSE b

RECURSIVE GcdN(_, _)
GcdN(a, b) == IF b = 0 THEN a ELSE GcdN(b, a % b)      \* a, b >= 0
Gcd(a, b) == GcdN(Abs(a), Abs(b))

RECURSIVE SumSeq(_)
SumSeq(s) == IF s = <<>> THEN 0 ELSE Head(s) + SumSeq(Tail(s))


\* Sum of f[i] for i in a finite index set I
RECURSIVE SumOver(_, _)
SumOver(I, f) == IF I = {} THEN 0 ELSE LET i == CHOOSE j \in I : TRUE IN f[i] + SumOver(I \ {i}, f)


(* 2-D *)
Orient2(a, b, c) == (b[1] - a[1]) * (c[2] - a[2]) - (b[2] - a[2]) * (c[1] - a[1])
Dot2(a, b) == a[1] * b[1] + a[2] * b[2]
Sub2(a, b) == <<a[1] - b[1], a[2] - b[2]>>
Add2(a, b) == <<a[1] + b[1], a[2] + b[2]>>
Dist2sq(a, b) == Dot2(Sub2(a, b), Sub2(a, b))

(* 3-D *)
Sub3(a, b) == <<a[1] - b[1], a[2] - b[2], a[3] - b[3]>>
Add3(a, b) == <<a[1] + b[1], a[2] + b[2], a[3] + b[3]>>
Scale3(k, a) == <<k * a[1], k * a[2], k * a[3]>>
Dot3(a, b) == a[1] * b[1] + a[2] * b[2] + a[3] * b[3]
Cross3(a, b) == <<a[2] * b[3] - a[3] * b[2], a[3] * b[1] - a[1] * b[3], a[1] * b[2] - a[2] * b[1]>>
Det3(a, b, c) == Dot3(a, Cross3(b, c))
Orient3(a, b, c, d) == Det3(Sub3(b, a), Sub3(c, a), Sub3(d, a))   \* > 0 iff d on the positive side of (a,b,c)
Norm3sq(a) == Dot3(a, a)

(* sequences *)
Nxt(i, n) == IF i = n THEN 1 ELSE i + 1
Prv(i, n) == IF i = 1 THEN n ELSE i - 1
Rev(s) == [i \in 1..Len(s) |-> s[Len(s) + 1 - i]]
Rot(s, k) == [i \in 1..Len(s) |-> s[((i - 1 + k) % Len(s)) + 1]]    \* rotate left by k
Rng(s) == {s[i] : i \in DOMAIN s}
=============================================================================
