------------------------------- MODULE Voxel3 -------------------------------
(***************************************************************************)
(* Input space of non-convex closed meshes as a state machine: a solid is  *)
(* a face-connected set of unit cells of a box (cells named by their       *)
(* minimal corner); AddCell glues a face-adjacent cell provided the        *)
(* surface stays a 2-manifold.  U/C shapes appear at 5 cells, a genus-1    *)
(* frame at 8.  The boundary mesh (every exposed unit square is one        *)
(* outward counter-clockwise quadrilateral) is the Polyhedron input.       *)
(* Layer D: volume = number of cells, area = number of exposed squares,    *)
(* centroid / second moments by summing unit cubes, membership = cell      *)
(* occupancy.  Layer A (AlgPolyhedron): the coded formulas over the        *)
(* triangulated surface.  T1: A = D.                                       *)
(***************************************************************************)
EXTENDS Exact, SequencesExt, Json, TLC

CONSTANTS NX, NY, NZ,    \* box of cells 0..NX-1 x 0..NY-1 x 0..NZ-1
          MaxCells,
          MinEmit,       \* emit only solids with at least this many cells
          EmitOn

VARIABLE cells
vars == <<cells>>

Cell == (0..NX - 1) \X (0..NY - 1) \X (0..NZ - 1)
Dirs == {<<1, 0, 0>>, <<-1, 0, 0>>, <<0, 1, 0>>, <<0, -1, 0>>, <<0, 0, 1>>, <<0, 0, -1>>}
FaceAdj(c, d) == \E u \in Dirs : d = Add3(c, u)

\* the eight cells around lattice vertex v, those that are occupied, and face-connectivity inside the block
Around(v) == {<<v[1] - i, v[2] - j, v[3] - k>> : i, j, k \in {0, 1}}
RECURSIVE Reach(_, _)
Reach(S, R) == LET N == {c \in S \ R : \E r \in R : FaceAdj(c, r)} IN IF N = {} THEN R ELSE Reach(S, R \cup N)
Connected(S) == IF S = {} THEN TRUE ELSE LET c0 == CHOOSE c \in S : TRUE IN Reach(S, {c0}) = S
LocalOK(C, v) == Connected(Around(v) \cap C) /\ Connected(Around(v) \ C)
Manifold(C) == \A v \in (0..NX) \X (0..NY) \X (0..NZ) : LocalOK(C, v)

Init == \E c \in Cell : cells = {c}
AddCell(c) == /\ Cardinality(cells) < MaxCells
              /\ c \notin cells
              /\ \E d \in cells : FaceAdj(c, d)
              /\ \A v \in {Add3(c, <<i, j, k>>) : i, j, k \in {0, 1}} : LocalOK(cells \cup {c}, v)   \* only the 8 corners of c change
              /\ cells' = cells \cup {c}
Next == \E c \in Cell : AddCell(c)
Spec == Init /\ [][Next]_vars

(* ---- the boundary mesh -------------------------------------------------------------------- *)
\* exposed faces as <<cell, outward direction>>
Exposed(C) == {f \in C \X Dirs : Add3(f[1], f[2]) \notin C}
\* the four corners of the unit square of cell c facing direction u, counter-clockwise seen from outside
Quad(c, u) ==
    CASE u = <<1, 0, 0>>  -> <<Add3(c, <<1, 0, 0>>), Add3(c, <<1, 1, 0>>), Add3(c, <<1, 1, 1>>), Add3(c, <<1, 0, 1>>)>>
      [] u = <<-1, 0, 0>> -> <<c, Add3(c, <<0, 0, 1>>), Add3(c, <<0, 1, 1>>), Add3(c, <<0, 1, 0>>)>>
      [] u = <<0, 1, 0>>  -> <<Add3(c, <<0, 1, 0>>), Add3(c, <<0, 1, 1>>), Add3(c, <<1, 1, 1>>), Add3(c, <<1, 1, 0>>)>>
      [] u = <<0, -1, 0>> -> <<c, Add3(c, <<1, 0, 0>>), Add3(c, <<1, 0, 1>>), Add3(c, <<0, 0, 1>>)>>
      [] u = <<0, 0, 1>>  -> <<Add3(c, <<0, 0, 1>>), Add3(c, <<1, 0, 1>>), Add3(c, <<1, 1, 1>>), Add3(c, <<0, 1, 1>>)>>
      [] u = <<0, 0, -1>> -> <<c, Add3(c, <<0, 1, 0>>), Add3(c, <<1, 1, 0>>), Add3(c, <<1, 0, 0>>)>>
Quads(C) == {Quad(f[1], f[2]) : f \in Exposed(C)}
\* surface triangles: each quad split as the ear clipper of the implementation does, (a,b,c) and (a,c,d)
SurfTris(C) == UNION {{<<q[1], q[2], q[3]>>, <<q[1], q[3], q[4]>>} : q \in Quads(C)}

(* ---- Layer D ------------------------------------------------------------------------------ *)
DVol(C) == Cardinality(C)
DArea(C) == Cardinality(Exposed(C))
\* centroid = DCen2(C) / (2 DVol)
DCen2(C) == [k \in 1..3 |-> SumOver(C, [c \in C |-> 2 * c[k] + 1])]
\* 12 * second moment int x_k x_l over the solid:  k = l: sum 12 c^2 + 12 c + 4 ;  k # l: 3 (2c_k+1)(2c_l+1)
DMom12(C, k, l) == IF k = l THEN SumOver(C, [c \in C |-> 12 * c[k] * c[k] + 12 * c[k] + 4])
                   ELSE SumOver(C, [c \in C |-> 3 * (2 * c[k] + 1) * (2 * c[l] + 1)])
\* membership of a point given in doubled coordinates: 1 inside, 0 outside, 2 boundary
H1(x) == {c \in {(x - 2) \div 2, (x - 1) \div 2, x \div 2} : 2 * c <= x /\ x <= 2 * c + 2}     \* cells whose closed interval holds x/2
Holders(q) == H1(q[1]) \X H1(q[2]) \X H1(q[3])
DMember(q, C) == LET H == Holders(q) IN
                 IF H \subseteq C THEN 1 ELSE IF H \cap C = {} THEN 0 ELSE 2

(* ---- Layer A: coxeter/shapes/polyhedron.py over the surface triangles ------------------------ *)
\* Polyhedron.volume = sum_faces area * offset / 3; for a unit square with outward unit normal u through
\* corner a:  1 * (u . a) / 3                                            -> times 3
AVol3(C) == SumOver(Exposed(C), [f \in Exposed(C) |-> Dot3(f[2], Quad(f[1], f[2])[1])])
\* Polyhedron.centroid (Eberly): per triangle n = (v1-v0) x (v2-v0); f1 = v0+v1+v2; f2 = v0^2 + v1(v0+v1) + v2 f1
\*   volume += n_x f1_x ; centre += n o f2 ; result centre / volume / 4
AEbVol(T) == SumOver(T, [t \in T |-> Cross3(Sub3(t[2], t[1]), Sub3(t[3], t[1]))[1] * (t[1][1] + t[2][1] + t[3][1])])
AEbCen(T, k) == SumOver(T, [t \in T |->
    Cross3(Sub3(t[2], t[1]), Sub3(t[3], t[1]))[k] *
      ( t[1][k] * t[1][k] + t[2][k] * (t[1][k] + t[2][k]) + t[3][k] * (t[1][k] + t[2][k] + t[3][k]) )])
\* Polyhedron._compute_inertia_tensor (Kallay), uncentred, with SIGNED determinants (as repaired):
\*   integral f = sum det/120 * ( f(a)+f(b)+f(c)+f(a+b+c) ) for quadratic f       -> second moments times 120
AMom120(T, k, l) == SumOver(T, [t \in T |->
     Det3(t[1], t[2], t[3]) * ( t[1][k] * t[1][l] + t[2][k] * t[2][l] + t[3][k] * t[3][l]
                              + (t[1][k] + t[2][k] + t[3][k]) * (t[1][l] + t[2][l] + t[3][l]) )])
\* what the pinned snapshot did: |det| (wrong as soon as some face is seen from behind from the reference point)
Dev_AMom120_AbsDet(T, k, l) == SumOver(T, [t \in T |->
     Abs(Det3(t[1], t[2], t[3])) * ( t[1][k] * t[1][l] + t[2][k] * t[2][l] + t[3][k] * t[3][l]
                              + (t[1][k] + t[2][k] + t[3][k]) * (t[1][l] + t[2][l] + t[3][l]) )])

\* Polyhedron.is_inside: winding number over the surface triangles with lexicographic tie-breaking
SignOr(a, b, c) == IF a # 0 THEN a ELSE IF b # 0 THEN b ELSE c
AWind(q, T2) ==     \* q and the triangles T2 in the same (doubled) integer frame
    LET d(v) == Sub3(v, q)
        vsign(v) == SignOr(Sgn(d(v)[1]), Sgn(d(v)[2]), Sgn(d(v)[3]))
        ccross(a, b) == << a[2] * b[1] - a[1] * b[2], a[3] * b[1] - a[1] * b[3], a[3] * b[2] - a[2] * b[3] >>
        esign(a, b) == LET x == ccross(a, b) IN SignOr(Sgn(x[1]), Sgn(x[2]), Sgn(x[3]))
        one(t) == LET a == d(t[1])  b == d(t[2])  c == d(t[3])
                      s0 == vsign(t[1])  s1 == vsign(t[2])  s2 == vsign(t[3])
                      fb == (IF s0 # s1 THEN esign(a, b) ELSE 0) + (IF s1 # s2 THEN esign(b, c) ELSE 0)
                            + (IF s2 # s0 THEN esign(c, a) ELSE 0)
                      tsign == Sgn(-ccross(a, b)[1] * c[3] - ccross(b, c)[1] * a[3] - ccross(c, a)[1] * b[3])
                  IN IF fb # 0 THEN tsign ELSE 0
    IN SumOver(T2, [t \in T2 |-> one(t)]) \div 2
Dbl3(p) == <<2 * p[1], 2 * p[2], 2 * p[3]>>
DblTris(T) == {<<Dbl3(t[1]), Dbl3(t[2]), Dbl3(t[3])>> : t \in T}

(* ---- form factor on the quarter-period lattice (C12) ------------------------------------------ *)
\* For q = (pi/2) m with integer m the Fourier integral of a unit cell factorises and every phase is a power of -i:
\*   int_c^{c+1} exp(-i (pi/2) m x) dx = 1                                            (m = 0)
\*                                     = (2 / (pi m)) * i * ((-i)^(m(c+1)) - (-i)^(m c))  (m # 0)
\* so  F(q) = G(m) * 2^nz / (pi^nz * prod of the non-zero m_k)  with G a Gaussian integer <<re, im>>.
PowMinusI(k) == LET r == k % 4 IN CASE r = 0 -> <<1, 0>> [] r = 1 -> <<0, -1>> [] r = 2 -> <<-1, 0>> [] r = 3 -> <<0, 1>>
GMul(a, b) == <<a[1] * b[1] - a[2] * b[2], a[1] * b[2] + a[2] * b[1]>>
GAdd(a, b) == <<a[1] + b[1], a[2] + b[2]>>
GSub(a, b) == <<a[1] - b[1], a[2] - b[2]>>
Axis1(m, c) == IF m = 0 THEN <<1, 0>> ELSE GMul(<<0, 1>>, GSub(PowMinusI(m * (c + 1)), PowMinusI(m * c)))
CellFF(m, c) == GMul(GMul(Axis1(m[1], c[1]), Axis1(m[2], c[2])), Axis1(m[3], c[3]))
RECURSIVE GSumCells(_, _)
GSumCells(m, C) == IF C = {} THEN <<0, 0>> ELSE LET c == CHOOSE x \in C : TRUE IN GAdd(CellFF(m, c), GSumCells(m, C \ {c}))
FFWaves == << <<0, 0, 0>>, <<1, 0, 0>>, <<0, 2, 0>>, <<0, 0, -3>>, <<1, 1, 0>>, <<2, -1, 0>>, <<0, 3, 1>>, <<1, 2, 3>>,
              <<-3, 1, 2>>, <<4, 4, 4>>, <<5, -2, 1>>, <<6, 0, 0>>, <<0, -5, 5>>, <<-1, -1, -1>>, <<7, 3, -2>> >>
FFRecord(C) == [i \in 1..Len(FFWaves) |->
    LET m == FFWaves[i]  nzs == {k \in 1..3 : m[k] # 0} IN
    [m |-> m, g |-> GSumCells(m, C), nz |-> Cardinality(nzs),
     mprod |-> (IF m[1] = 0 THEN 1 ELSE m[1]) * (IF m[2] = 0 THEN 1 ELSE m[2]) * (IF m[3] = 0 THEN 1 ELSE m[3])]]
\* T1: F(0) = volume, F(-q) = conj F(q); in terms of G the prefactor changes sign with every non-zero m_k:
\*     G(-m) = (-1)^nz * conj G(m)
T1_FF(C) == /\ GSumCells(<<0, 0, 0>>, C) = <<Cardinality(C), 0>>
            /\ \A i \in 1..Len(FFWaves) : LET m == FFWaves[i]  a == GSumCells(m, C)  b == GSumCells(<<-m[1], -m[2], -m[3]>>, C)
                                                 sg == IF Cardinality({k \in 1..3 : m[k] # 0}) % 2 = 0 THEN 1 ELSE -1
                                             IN b = <<sg * a[1], -sg * a[2]>>

(* ---- T1 ------------------------------------------------------------------------------------- *)
QBox == (-1..2 * NX + 1) \X (-1..2 * NY + 1) \X (-1..2 * NZ + 1)
T1_Failing == LET C == cells  T == SurfTris(C)  n == DVol(C) IN
    IF ~Manifold(C) THEN "Manifold"
    ELSE IF AVol3(C) # 3 * n THEN "T1_Volume"
    ELSE IF AEbVol(T) # 6 * n THEN "T1_EberlyVolume"              \* sum n_x f1_x = 6 V
    ELSE IF \E k \in 1..3 : AEbCen(T, k) * 2 # 24 * DCen2(C)[k] THEN "T1_EberlyCentroid"   \* sum n o f2 = 24 V c = 12 * DCen2
    ELSE IF \E k, l \in 1..3 : AMom120(T, k, l) # 10 * DMom12(C, k, l) THEN "T1_Inertia"
    ELSE IF ~T1_FF(C) THEN "T1_FormFactor"
    ELSE IF \E q \in QBox : LET m == DMember(q, C) IN m # 2 /\ ((AWind(q, DblTris(T)) # 0) # (m = 1)) THEN "T1_Winding"
    ELSE "none"
T1_All == LET f == T1_Failing IN f = "none" \/ ~PrintT(<<"T1-FAILED", f, cells>>)

(* ---- emission -------------------------------------------------------------------------------- *)
LexLt(p, q) == \/ p[1] < q[1] \/ (p[1] = q[1] /\ p[2] < q[2]) \/ (p[1] = q[1] /\ p[2] = q[2] /\ p[3] < q[3])
RECURSIVE SortPts(_)
SortPts(S) == IF S = {} THEN <<>> ELSE
                LET m == CHOOSE p \in S : \A q \in S \ {p} : LexLt(p, q) IN <<m>> \o SortPts(S \ {m})
IndexOf(s, p) == CHOOSE i \in 1..Len(s) : s[i] = p
QSeq == SortPts(QBox)
Record ==
    LET C == cells
        Qs == Quads(C)
        vs == SortPts(UNION {Rng(q) : q \in Qs})
    IN [ k |-> "voxel", cells |-> C, v |-> vs,
         faces |-> {[i \in 1..4 |-> IndexOf(vs, q[i]) - 1] : q \in Qs},
         vol |-> DVol(C), area |-> DArea(C), cen2 |-> DCen2(C),
         mom12 |-> [a \in 1..3 |-> [b \in 1..3 |-> DMom12(C, a, b)]],
         dev_mom120_absdet |-> [a \in 1..3 |-> [b \in 1..3 |-> Dev_AMom120_AbsDet(SurfTris(C), a, b)]],
         ff |-> FFRecord(C),
         q2 |-> QSeq, mem |-> [i \in 1..Len(QSeq) |-> DMember(QSeq[i], C)] ]
Emit == (EmitOn /\ Cardinality(cells) >= MinEmit) => PrintT(ToJson(Record))
ViewC == cells
=============================================================================
