----------------------------- MODULE AlgConvex -----------------------------
(***************************************************************************)
(* Layer A: transcription of the numerical kernels of                       *)
(* coxeter/shapes/convex_polyhedron.py over a set T of outward-oriented     *)
(* surface triangles <<a,b,c>> with integer vertices (the "simplices").     *)
(* All quantities are returned as integer numerators of a stated fixed      *)
(* denominator, so the T1 theorems are integer identities.                  *)
(***************************************************************************)
EXTENDS Exact

TriN(t) == Cross3(Sub3(t[2], t[1]), Sub3(t[3], t[1]))     \* n * at of the code: unnormalised normal

\* _calculate_signed_volume: sum det(a,b,c) / 6                      -> times 6
AVol6(T) == SumOver(T, [t \in T |-> Det3(t[1], t[2], t[3])])

\* _centroid_from_triangulated_surface:
\*   1/(48 V) * sum n o ((a+b)^2 + (b+c)^2 + (a+c)^2),  n = cross(b-a, c-a)    -> 48 V c_k
ACen48V(T, k) == SumOver(T, [t \in T |->
    TriN(t)[k] * ( (t[1][k] + t[2][k]) * (t[1][k] + t[2][k]) + (t[2][k] + t[3][k]) * (t[2][k] + t[3][k])
                 + (t[1][k] + t[3][k]) * (t[1][k] + t[3][k]) )])

\* _compute_inertia_tensor(centered=False): 4-point quadrature, weights (-9/16, 25/48 x3),
\* points (a+b+c)/3, (a+b+3c)/5, (3a+b+c)/5, (a+3b+c)/5.  For a cubic monomial m,
\*   sum_k w_k m(q_k) = ( -5 m(a+b+c) + m(a+b+3c) + m(3a+b+c) + m(a+3b+c) ) / 240
Q0(t) == Add3(Add3(t[1], t[2]), t[3])
Q1(t) == Add3(Add3(t[1], t[2]), Scale3(3, t[3]))
Q2(t) == Add3(Add3(Scale3(3, t[1]), t[2]), t[3])
Q3(t) == Add3(Add3(t[1], Scale3(3, t[2])), t[3])
Mono(q, i, j, k) == q[i] * q[j] * q[k]
Quad240(t, i, j, k) == -5 * Mono(Q0(t), i, j, k) + Mono(Q1(t), i, j, k) + Mono(Q2(t), i, j, k) + Mono(Q3(t), i, j, k)

\* i_nn(sub=[i,j]) = sum_tri ( N_i W(iii) + N_j W(jjj) ) / 6           -> times 1440
AInn1440(T, i, j) == SumOver(T, [t \in T |-> TriN(t)[i] * Quad240(t, i, i, i) + TriN(t)[j] * Quad240(t, j, j, j)])
\* i_nm(sub=[i,j]) = -( sum N_i W(iij) + sum N_j W(ijj) ) / 8          -> times 1920
AInm1920(T, i, j) == -SumOver(T, [t \in T |-> TriN(t)[i] * Quad240(t, i, i, j) + TriN(t)[j] * Quad240(t, i, j, j)])
=============================================================================
