--------------------------- MODULE MC_Family523 ---------------------------
(* Parameter sets of Family523: the four irrational corners of the documented domain (Dn = 2), rational grids inside it, points
   on its edges and points outside it. *)
EXTENDS Family523

\* one parameter point per TLC process (the vertex enumeration of one state takes ~10 s and initial states are evaluated by one
\* thread): the cfg gives the four integers, the q parts shifted by 10 because cfg files have no negative numbers
CONSTANTS PA1, PA2, PC1, PC2
OnePoint == { << <<PA1, PA2 - 10>>, <<PC1, PC2 - 10>> >> }

\* Dn = 2: a in {1, s sqrt5 = (5 - sqrt5)/2}, c in {S^2 = (3 + sqrt5)/2, 3}; plus the midpoints of the four edges and the centre
AHalf == {<<2, 0>>, <<5, -1>>}
CHalf == {<<3, 1>>, <<6, 0>>}
Corners == AHalf \X CHalf
\* Dn = 4: midpoints (a = (1 + amax)/2 = (7 - sqrt5)/4, c = (S^2 + 3)/2 = (9 + sqrt5)/4) combined with the corner values
AQuarter == {<<4, 0>>, <<7, -1>>, <<10, -2>>}
CQuarter == {<<6, 2>>, <<9, 1>>, <<12, 0>>}
EdgesAndCentre == AQuarter \X CQuarter
\* Dn = 8: a rational grid, including points outside the domain (a = 7/8 < 1, a = 12/8 > 1.382, c = 20/8 < S^2, c = 25/8 > 3)
AEighth == {<<7, 0>>, <<8, 0>>, <<9, 0>>, <<10, 0>>, <<11, 0>>, <<12, 0>>}
CEighth == {<<20, 0>>, <<21, 0>>, <<22, 0>>, <<23, 0>>, <<24, 0>>, <<25, 0>>}
Grid8 == AEighth \X CEighth
Grid8Quick == {<<8, 0>>, <<10, 0>>, <<12, 0>>} \X {<<20, 0>>, <<22, 0>>, <<24, 0>>}
=============================================================================
