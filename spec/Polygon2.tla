------------------------------ MODULE Polygon2 ------------------------------
(***************************************************************************)
(* The input space of simple lattice polygons as a state machine           *)
(* (DESIGN 3.3): Init is any positively oriented lattice triangle, AddEar  *)
(* glues an outward ear onto an edge (so the growth history IS a           *)
(* triangulation over which layer D integrates), Reverse and Shift relabel *)
(* the vertex cycle.  Invariants state the T1 theorems "layer A = layer D".*)
(* Emit prints one JSON record per state with the exact observables, which *)
(* the harness replays into coxeter.shapes.Polygon / ConvexPolygon.        *)
(***************************************************************************)
EXTENDS Geom2, AlgPolygon, Json, TLC

CONSTANTS G,        \* lattice is 0..G x 0..G
          MaxV,     \* maximal number of vertices
          Relabel,  \* TRUE: Reverse/Shift are actions (all 2n relabellings are states)
          WithBalls, \* TRUE: records carry the exact ball data of C13
          WithFF,    \* TRUE: records carry the exact form factor at q = pi m (C12)
          WithRadial, \* TRUE: (convex polygons) records carry exact centroid-to-boundary distances along integer directions (C14)
          EmitOn,   \* TRUE: print records
          Seeds     \* {}: behaviours start from the lattice triangles; otherwise a set of simple counter-clockwise
                    \* vertex cycles (named polygons: combs, spirals, ...) from which behaviours start instead

VARIABLES poly,     \* sequence of points: the vertex cycle as handed to the constructor
          tris      \* set of positively oriented triangles tiling the polygon

vars == <<poly, tris>>
Pts == (0..G) \X (0..G)

\* a triangulation of a simple counter-clockwise cycle by ear clipping (definition level: some ear always exists)
IsEar(s, i) == LET n == Len(s)  a == s[Prv(i, n)]  b == s[i]  c == s[Nxt(i, n)] IN
                 /\ Orient2(a, b, c) > 0
                 /\ \A k \in 1..n : s[k] \in {a, b, c} \/ ~InTriClosed(s[k], <<a, b, c>>)
DropAt(s, i) == [k \in 1..Len(s) - 1 |-> IF k < i THEN s[k] ELSE s[k + 1]]
RECURSIVE EarTris(_)
EarTris(s) == IF Len(s) = 3 THEN {<<s[1], s[2], s[3]>>}
              ELSE LET n == Len(s)  i == CHOOSE j \in 1..n : IsEar(s, j)
                   IN {<<s[Prv(i, n)], s[i], s[Nxt(i, n)]>>} \cup EarTris(DropAt(s, i))

Init == IF Seeds = {}
        THEN \E a, b, c \in Pts :
               /\ Orient2(a, b, c) > 0
               /\ poly = <<a, b, c>>
               /\ tris = {<<a, b, c>>}
        ELSE /\ poly \in Seeds
             /\ tris = EarTris(poly)

\* insert p between poly[i] and its successor; legal iff the cycle is counter-clockwise,
\* p is strictly to the right of that edge (outside) and the new cycle is simple
InsertAt(s, i, p) == [k \in 1..Len(s) + 1 |-> IF k <= i THEN s[k] ELSE IF k = i + 1 THEN p ELSE s[k - 1]]

Ccw == DCcw(poly, tris)

AddEar(i, p) ==
    LET n == Len(poly)  a == poly[i]  b == poly[Nxt(i, n)]
        np == InsertAt(poly, i, p)
    IN /\ n < MaxV
       /\ Ccw
       /\ Orient2(a, b, p) < 0
       /\ Simple(np)
       /\ \A k \in 1..n : poly[k] \in {a, b} \/ ~InTriClosed(poly[k], <<a, p, b>>)
       /\ poly' = np
       /\ tris' = tris \cup {<<a, p, b>>}

Reverse == Relabel /\ poly' = Rev(poly) /\ UNCHANGED tris
Shift   == Relabel /\ poly' = Rot(poly, 1) /\ UNCHANGED tris

Next == \/ \E i \in 1..Len(poly), p \in Pts : AddEar(i, p)
        \/ Reverse
        \/ Shift

Spec == Init /\ [][Next]_vars

(* ---------------- T1: theorems inside the specification ---------------- *)
Sg == IF Ccw THEN 1 ELSE -1

TypeOK == Len(poly) >= 3 /\ Simple(poly) /\ Cardinality(tris) = Len(poly) - 2

\* shoelace formula as coded = integral over the triangulation, with the sign of the orientation
T1_SignedArea == ASignedArea2(poly, 1) = Sg * DArea2(tris) /\ ASignedArea2(poly, -1) = -Sg * DArea2(tris)

\* centroid as coded (numerators over 3 * signed 2A) = centroid by integration (numerators over 3 * 2A)
T1_Centroid == LET c == ACentroidNum(poly)  d == DCnum(tris) IN
                 c[1] * DArea2(tris) = d[1] * ASignedArea2(poly, 1)
              /\ c[2] * DArea2(tris) = d[2] * ASignedArea2(poly, 1)

T1_Planar == LET m == APlanar24(poly) IN
               /\ m.ix = DMom24(tris, 2, 2)
               /\ m.iy = DMom24(tris, 1, 1)
               /\ m.ixy = DMom24(tris, 1, 2)

\* polytri's ear clipping as coded terminates on every simple polygon and every relabelling (a valid shape does not become
\* an error), and what it returns tiles the polygon: its triangles run the way the cycle runs and integrate to the same
\* area, first and second moments as the growth triangulation
TriOK(r) == LET T == {r.tris[k] : k \in 1..Len(r.tris)}
                P == {IF Sg = 1 THEN t ELSE <<t[1], t[3], t[2]>> : t \in T} IN
    /\ r.ok
    /\ Len(r.tris) = Len(poly) - 2 /\ Cardinality(T) = Len(poly) - 2
    /\ \A t \in T : Sg * TriDet(t) > 0
    /\ DArea2(P) = DArea2(tris)
    /\ DCnum(P) = DCnum(tris)
    /\ \A k, l \in 1..2 : DMom24(P, k, l) = DMom24(tris, k, l)
T1_Triangulate == TriOK(ATriangulate(poly))
\* non-vacuity: the wrong variant of the loop must NOT satisfy the theorem everywhere (checked as an invariant that TLC
\* is expected to violate on the named polygons)
Canary_WrongTriangulate == TriOK(WrongTriLoop(poly, 0, ANewellZ(poly), <<>>))

\* query points: the half-lattice of the bounding box enlarged by one half-step; doubled frame
QPts == (-1..2 * G + 1) \X (-1..2 * G + 1)
Dbl(s) == [i \in 1..Len(s) |-> <<2 * s[i][1], 2 * s[i][2]>>]
DblT(T) == {<<<<2 * t[1][1], 2 * t[1][2]>>, <<2 * t[2][1], 2 * t[2][2]>>, <<2 * t[3][1], 2 * t[3][2]>>>> : t \in T}

T1_Membership == LET P == Dbl(poly)  T == DblT(tris) IN
    \A q \in QPts : LET m == DMember(q, P) IN
        /\ m = DMemberT(q, P, T)                              \* the two definitions agree
        /\ m # 2 => (AIsInside(q, P) <=> m = 1)               \* the coded winding number decides it

(* ---------------- emission -------------------------------------------- *)
QSeq == [k \in 1..(2 * G + 3) * (2 * G + 3) |->
            << ((k - 1) \div (2 * G + 3)) - 1, ((k - 1) % (2 * G + 3)) - 1 >>]

Record ==
    LET n == Len(poly)  P == Dbl(poly) IN
    [ k      |-> "polygon",
      v      |-> poly,
      ccw    |-> Ccw,
      convex |-> IF Ccw THEN StrictlyConvexCcw(poly) ELSE StrictlyConvexCcw(Rev(poly)),
      tris   |-> tris,
      area2  |-> DArea2(tris),                    \* area = area2 / 2
      cnum   |-> DCnum(tris),                     \* centroid = cnum / (3 area2)
      m24    |-> <<DMom24(tris, 1, 1), DMom24(tris, 2, 2), DMom24(tris, 1, 2)>>,   \* 24 * int x^2, y^2, xy
      edge2  |-> [i \in 1..n |-> Dist2sq(poly[i], poly[Nxt(i, n)])],   \* perimeter = sum of sqrt
      q2     |-> QSeq,                            \* query points, doubled frame
      mem    |-> [k \in 1..Len(QSeq) |-> DMember(QSeq[k], P)] ]

(* ---- balls (C13) ---------------------------------------------------------------------------- *)
\* four points are concyclic iff the lifted determinant vanishes; a circumcircle exists iff all vertices are concyclic
Lift2(p, o) == LET d == Sub2(p, o) IN <<d[1], d[2], Dot2(d, d)>>
Det3r(a, b, c) == a[1] * (b[2] * c[3] - b[3] * c[2]) - a[2] * (b[1] * c[3] - b[3] * c[1]) + a[3] * (b[1] * c[2] - b[2] * c[1])
Cyclic == LET o == poly[1]  a == poly[2]
              b == CHOOSE p \in Rng(poly) : Orient2(o, a, p) # 0
          IN \A p \in Rng(poly) : Det3r(Lift2(a, o), Lift2(b, o), Lift2(p, o)) = 0
\* centred balls about the exact centroid c = cnum / D, D = 3 * area2 (all in integers scaled by D):
\*   minimal centred bounding circle: r^2 = max_v |D v - cnum|^2 / D^2
\*   maximal centred bounded circle (convex polygons): r = min over edges of |cross(D a - cnum, b - a)| / (D |b - a|)
BallRecord ==
    LET D == 3 * DArea2(tris)  c == DCnum(tris)  n == Len(poly)
        sc(v) == <<D * v[1] - c[1], D * v[2] - c[2]>>
        far == CHOOSE v \in Rng(poly) : \A u \in Rng(poly) : Dot2(sc(v), sc(v)) >= Dot2(sc(u), sc(u))
    IN [den |-> D, far2 |-> Dot2(sc(far), sc(far)), cyclic |-> Cyclic,
        inner |-> [min |-> {[div |-> << [q |-> << Abs(sc(poly[i])[1] * (poly[Nxt(i, n)][2] - poly[i][2]) - sc(poly[i])[2] * (poly[Nxt(i, n)][1] - poly[i][1])), D >>],
                                        [sqrt |-> [q |-> <<Dist2sq(poly[i], poly[Nxt(i, n)]), 1>>]] >>] : i \in 1..n}]]

(* ---- form factor at q = pi * m (C12) ------------------------------------------------------------ *)
\* Fourier transform of a triangle with vertices v_1, v_2, v_3 (simplex formula):
\*   F(q) = 2A * sum_j exp(-i q.v_j) / prod_{k # j} (-i q.(v_j - v_k))
\* For q = pi m with integer m:  exp(-i q.v_j) = (-1)^(m.v_j)  and  q.(v_j - v_k) = pi d_jk  with integer d_jk, so
\*   pi^2 F(q) = - sum_j  (2A) (-1)^(m.v_j) / (d_jk d_jl),   real and rational, provided no d vanishes ("generic" m).
\* The polygon's transform is the sum over the triangles of its growth triangulation.
FFWaves2 == << <<1, 2>>, <<2, 1>>, <<3, -1>>, <<1, 3>>, <<-2, 3>>, <<5, 2>>, <<3, 4>>, <<-1, 4>>, <<7, -3>>, <<1, -5>> >>
DotM(m, p) == m[1] * p[1] + m[2] * p[2]
GenericFor(m) == \A t \in tris : \A j, k \in 1..3 : j # k => DotM(m, Sub2(t[j], t[k])) # 0
TriTerms(m, t) == { [n |-> -TriDet(t) * (IF DotM(m, t[j]) % 2 = 0 THEN 1 ELSE -1),
                     d |-> DotM(m, Sub2(t[j], t[Nxt(j, 3)])) * DotM(m, Sub2(t[j], t[Prv(j, 3)])),
                     id |-> <<t, j>>] : j \in 1..3 }
FFRecord2 == [i \in 1..Len(FFWaves2) |->
    LET m == FFWaves2[i] IN
    [m |-> m, generic |-> GenericFor(m),
     pi2F |-> IF GenericFor(m) THEN UNION {TriTerms(m, t) : t \in tris} ELSE {}]]      \* pi^2 F = sum of n/d

(* ---- radial distance from the centroid (C14) --------------------------------------------------- *)
\* The ray  c + t u  (c = cnum / D the exact centroid, u an integer direction) leaves a convex polygon through the
\* unique edge (a, b) with  t = cross(a - c, b - a) / cross(u, b - a) > 0  and the hit point between a and b.
\* Everything is scaled by D:  t = tn / td  with  tn = cross(D a - cnum, b - a),  td = D cross(u, b - a).
Cr2(p, q) == p[1] * q[2] - p[2] * q[1]
RadialHit(u) ==
    LET D == 3 * DArea2(tris)  c == DCnum(tris)  n == Len(poly)
        ca(i) == <<D * poly[i][1] - c[1], D * poly[i][2] - c[2]>>          \* D (a - c)
        e(i) == Sub2(poly[Nxt(i, n)], poly[i])
        tn(i) == Cr2(ca(i), e(i))
        td(i) == D * Cr2(u, e(i))
        \* position along the edge: lambda = cross(D(a-c), u) / (D cross(u, e)) in [0, 1]
        ln(i) == Cr2(ca(i), u)
        ld(i) == Cr2(u, e(i))
        hits(i) == /\ td(i) # 0 /\ tn(i) * td(i) > 0
                   /\ (IF ld(i) > 0 THEN 0 <= ln(i) /\ ln(i) <= D * ld(i) ELSE 0 >= ln(i) /\ ln(i) >= D * ld(i))
        i0 == CHOOSE i \in 1..n : hits(i)
    IN [u |-> u, tn |-> Abs(tn(i0)), td |-> Abs(td(i0))]
Directions == LET D == 3 * DArea2(tris)  c == DCnum(tris) IN
    ({<<x, y>> : x, y \in -2..2} \ {<<0, 0>>}) \cup {<<D * poly[i][1] - c[1], D * poly[i][2] - c[2]>> : i \in 1..Len(poly)}
RadialRecord == IF (IF Ccw THEN StrictlyConvexCcw(poly) ELSE StrictlyConvexCcw(Rev(poly))) THEN {RadialHit(u) : u \in Directions} ELSE {}

Emit == EmitOn => PrintT(ToJson(IF WithFF THEN Record @@ [ff |-> FFRecord2] ELSE IF WithRadial THEN Record @@ [radial |-> RadialRecord] ELSE IF WithBalls THEN [Record EXCEPT !.k = "polygon"] @@ [balls |-> BallRecord] ELSE Record))
ViewPoly == poly      \* emission runs identify states that differ only in the triangulation
=============================================================================
