------------------------------ MODULE MC_Ctor2 ------------------------------
(* Constructor inputs with 6-16 vertices: every named polygon with two of its entries exchanged (neighbours, or entries two or
   three apart).  The classifier of Ctor2 decides each one exactly; most exchanges produce exactly one or two transversal
   crossings among many edges, which is where a sweep-line implementation has the most neighbour bookkeeping to get wrong. *)
EXTENDS Ctor2, NamedPolygons

Exchange(s, i, j) == [k \in 1..Len(s) |-> IF k = i THEN s[j] ELSE IF k = j THEN s[i] ELSE s[k]]
Wrap(i, m) == ((i - 1) % m) + 1
InitNamed == \E p \in NamedAll : \E i \in 1..Len(p) : \E d \in 0..3 :
                seq = (IF d = 0 THEN p ELSE Exchange(p, i, Wrap(i + d, Len(p))))
NextNone == FALSE /\ UNCHANGED vars
SpecNamed == InitNamed /\ [][NextNone]_vars
=============================================================================
