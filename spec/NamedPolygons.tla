--------------------------- MODULE NamedPolygons ---------------------------
(* Named non-convex lattice polygons (counter-clockwise cycles): shapes with many reflex corners that growth machines reach only
   at depths beyond their exhaustive bounds.  Used as Seeds of Polygon2 (MC_Polygon2) and, with two entries exchanged, as
   constructor inputs of Ctor2 (MC_Ctor2). *)
EXTENDS Integers, Sequences

\* three-tooth comb (12 vertices): teeth of width 1 at x = 0..1, 2..3, 4..5 on a back of height 1
Comb12 == << <<0, 0>>, <<5, 0>>, <<5, 3>>, <<4, 3>>, <<4, 1>>, <<3, 1>>, <<3, 3>>, <<2, 3>>, <<2, 1>>, <<1, 1>>, <<1, 3>>, <<0, 3>> >>
\* four-tooth comb with teeth of different heights (16 vertices)
Comb16 == << <<0, 0>>, <<7, 0>>, <<7, 2>>, <<6, 2>>, <<6, 1>>, <<5, 1>>, <<5, 4>>, <<4, 4>>, <<4, 1>>, <<3, 1>>, <<3, 3>>, <<2, 3>>,
             <<2, 1>>, <<1, 1>>, <<1, 5>>, <<0, 5>> >>
\* saw blade: slanted teeth (10 vertices), no axis-parallel tooth flank
Saw10 == << <<0, 0>>, <<8, 0>>, <<8, 3>>, <<6, 1>>, <<6, 3>>, <<4, 1>>, <<4, 3>>, <<2, 1>>, <<2, 3>>, <<0, 1>> >>
\* rectangular spiral (14 vertices): not star-shaped from any point
Spiral14 == << <<0, 0>>, <<6, 0>>, <<6, 6>>, <<1, 6>>, <<1, 2>>, <<4, 2>>, <<4, 4>>, <<3, 4>>, <<3, 3>>, <<2, 3>>, <<2, 5>>, <<5, 5>>,
               <<5, 1>>, <<0, 1>> >>
\* slanted zig-zag band (8 vertices): reflex corners alternate with convex ones, first corner reflex after one shift
Zig8 == << <<0, 0>>, <<2, 2>>, <<4, 0>>, <<6, 2>>, <<6, 4>>, <<4, 2>>, <<2, 4>>, <<0, 2>> >>
\* star with thin arms (8 vertices)
Star8 == << <<3, 0>>, <<4, 2>>, <<6, 3>>, <<4, 4>>, <<3, 6>>, <<2, 4>>, <<0, 3>>, <<2, 2>> >>
\* plus sign (12 vertices), U (8), T (8), L (6)
Plus12 == << <<2, 0>>, <<4, 0>>, <<4, 2>>, <<6, 2>>, <<6, 4>>, <<4, 4>>, <<4, 6>>, <<2, 6>>, <<2, 4>>, <<0, 4>>, <<0, 2>>, <<2, 2>> >>
U8 == << <<0, 0>>, <<5, 0>>, <<5, 4>>, <<4, 4>>, <<4, 1>>, <<1, 1>>, <<1, 4>>, <<0, 4>> >>
T8 == << <<2, 0>>, <<3, 0>>, <<3, 3>>, <<5, 3>>, <<5, 4>>, <<0, 4>>, <<0, 3>>, <<2, 3>> >>
L6 == << <<0, 0>>, <<4, 0>>, <<4, 1>>, <<1, 1>>, <<1, 5>>, <<0, 5>> >>

NamedAll == {Comb12, Comb16, Saw10, Spiral14, Zig8, Star8, Plus12, U8, T8, L6}
=============================================================================
