------------------------------ MODULE Tabulated ------------------------------
(***************************************************************************)
(* C18: the tabulated shape families.  (i) The reference table: textbook   *)
(* numbers of vertices, edges and faces of the Platonic, Archimedean and   *)
(* Catalan solids (a Catalan solid is the dual of an Archimedean one:      *)
(* V and F exchanged), the sizes of all families.  (ii) The loader         *)
(* protocol of DOI_SHAPE_REPOSITORIES and of a tabulated family as a small *)
(* state machine: a repository is loaded on first lookup and the same      *)
(* object is returned afterwards; unknown keys raise KeyError and change   *)
(* nothing; iteration yields every name once, in the order of names, with  *)
(* the shape get_shape returns.                                            *)
(***************************************************************************)
EXTENDS Integers, Sequences, FiniteSets, TLC, Json

Platonic == [ Tetrahedron |-> <<4, 6, 4>>, Cube |-> <<8, 12, 6>>, Octahedron |-> <<6, 12, 8>>,
              Dodecahedron |-> <<20, 30, 12>>, Icosahedron |-> <<12, 30, 20>> ]
\* name -> <<V, E, F>>, and the Catalan dual of each Archimedean solid
Archimedean == << <<"Truncated Tetrahedron", 12, 18, 8, "Triakis Tetrahedron">>,
                  <<"Cuboctahedron", 12, 24, 14, "Rhombic Dodecahedron">>,
                  <<"Truncated Cube", 24, 36, 14, "Triakis Octahedron">>,
                  <<"Truncated Octahedron", 24, 36, 14, "Tetrakis Hexahedron">>,
                  <<"Rhombicuboctahedron", 24, 48, 26, "Deltoidal Icositetrahedron">>,
                  <<"Truncated Cuboctahedron", 48, 72, 26, "Disdyakis Dodecahedron">>,
                  <<"Snub Cuboctahedron", 24, 60, 38, "Pentagonal Icositetrahedron">>,
                  <<"Icosidodecahedron", 30, 60, 32, "Rhombic Triacontahedron">>,
                  <<"Truncated Dodecahedron", 60, 90, 32, "Triakis Icosahedron">>,
                  <<"Truncated Icosahedron", 60, 90, 32, "Pentakis Dodecahedron">>,
                  <<"Rhombicosidodecahedron", 60, 120, 62, "Deltoidal Hexecontahedron">>,
                  <<"Truncated Icosidodecahedron", 120, 180, 62, "Disdyakis Triacontahedron">>,
                  <<"Snub Icosidodecahedron", 60, 150, 92, "Pentagonal Hexecontahedron">> >>
Sizes == [PlatonicFamily |-> 5, ArchimedeanFamily |-> 13, CatalanFamily |-> 13, JohnsonFamily |-> 92,
          PrismAntiprismFamily |-> 16, PyramidDipyramidFamily |-> 6, science1220869 |-> 145]
KnownDOIs == {"10.1126/science.1220869", "10.1103/PhysRevX.4.011024", "10.1021/nn204012y"}
FamiliesOf(d) == CASE d = "10.1126/science.1220869" -> 1 [] d = "10.1103/PhysRevX.4.011024" -> 3 [] d = "10.1021/nn204012y" -> 1

\* T1 (inside the table): Euler's formula for every entry, duals exchange V and F, 145 = 5 + 13 + 13 + 92 + 22
T1_Table == /\ \A k \in DOMAIN Platonic : Platonic[k][1] - Platonic[k][2] + Platonic[k][3] = 2
            /\ \A i \in 1..Len(Archimedean) : Archimedean[i][2] - Archimedean[i][3] + Archimedean[i][4] = 2
            /\ Cardinality({Archimedean[i][1] : i \in 1..Len(Archimedean)}) = 13
            /\ Cardinality({Archimedean[i][5] : i \in 1..Len(Archimedean)}) = 13
            /\ Sizes.science1220869 = Sizes.PlatonicFamily + Sizes.ArchimedeanFamily + Sizes.CatalanFamily + Sizes.JohnsonFamily + 22

(* ---- the loader protocol -------------------------------------------------------------------- *)
CONSTANT MaxOps
VARIABLES loaded, ret, nops
vars == <<loaded, ret, nops>>
Keys == KnownDOIs \cup {"10.0000/unknown"}
Init == loaded = {} /\ ret = [op |-> "init"] /\ nops = 0
Lookup(d) == /\ nops < MaxOps /\ nops' = nops + 1
             /\ IF d \in KnownDOIs
                THEN loaded' = loaded \cup {d} /\ ret' = [op |-> "lookup", key |-> d, exc |-> "none", nfam |-> FamiliesOf(d),
                                                          fresh |-> d \notin loaded]
                ELSE loaded' = loaded /\ ret' = [op |-> "lookup", key |-> d, exc |-> "KeyError", nfam |-> 0, fresh |-> FALSE]
             /\ PrintT(ToJson([k |-> "loader", pre |-> loaded, ret |-> ret', post |-> loaded']))
Next == \E d \in Keys : Lookup(d)
Spec == Init /\ [][Next]_vars
\* a failed lookup loads nothing; a repeated lookup of a loaded key loads nothing new
LoaderMonotone == [][loaded \subseteq loaded' /\ (ret'.exc = "KeyError" => loaded' = loaded)]_vars
Idempotent == [][(ret'.op = "lookup" /\ ret'.exc = "none" /\ ~ret'.fresh) => loaded' = loaded]_vars

Table == [k |-> "table", platonic |-> Platonic,
          archimedean |-> [i \in 1..Len(Archimedean) |-> [name |-> Archimedean[i][1], vef |-> <<Archimedean[i][2], Archimedean[i][3], Archimedean[i][4]>>]],
          catalan |-> [i \in 1..Len(Archimedean) |-> [name |-> Archimedean[i][5], vef |-> <<Archimedean[i][4], Archimedean[i][3], Archimedean[i][2]>>,
                                                      dual_of |-> Archimedean[i][1]]],
          sizes |-> Sizes]
EmitTable == (nops = 0) => PrintT(ToJson(Table))
ViewL == <<loaded, nops>>
=============================================================================
