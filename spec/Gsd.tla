-------------------------------- MODULE Gsd --------------------------------
(***************************************************************************)
(* C19: the dispatch of coxeter.shape_getters.from_gsd_type_shapes as a    *)
(* decision table, and the representation round trips as actions of a      *)
(* small machine: a shape is exported (gsd_shape_spec / repr / to_json /   *)
(* to_hoomd) and re-imported, and the class and abstract content that must *)
(* come back are stated.  TLC enumerates every row and every action.       *)
(***************************************************************************)
EXTENDS Integers, Sequences, FiniteSets, TLC, Json

Types == {"Sphere", "Ellipsoid", "Polygon", "ConvexPolyhedron", "Mesh", "Cube", "sphere", "missing"}
Classes == {"Circle", "Ellipse", "Sphere", "Ellipsoid", "Polygon", "ConvexPolygon", "ConvexSpheropolygon",
            "Polyhedron", "ConvexPolyhedron", "ConvexSpheropolyhedron"}

VARIABLES row, phase
vars == <<row, phase>>

\* a row of the table: type string (or missing), dimensionality argument, the rounding radius (absent, or present with a
\* positive, zero or negative value: a key that is PRESENT selects the rounded class whatever its value, and the rounded
\* class refuses a negative radius), whether the vertex cycle is convex (only meaningful for Polygon)
Rows == [type : Types, dims : {2, 3}, rounding : {"absent", "positive", "zero", "negative"}, convex : BOOLEAN]

Expected(r) ==
    CASE r.type = "missing" -> "ValueError"
      [] r.type = "Sphere" -> IF r.dims = 2 THEN "Circle" ELSE "Sphere"
      [] r.type = "Ellipsoid" -> IF r.dims = 2 THEN "Ellipse" ELSE "Ellipsoid"
      [] r.type = "Polygon" -> IF r.rounding # "absent"
                               THEN (IF r.convex /\ r.rounding # "negative" THEN "ConvexSpheropolygon" ELSE "ValueError")
                               ELSE IF r.convex THEN "ConvexPolygon" ELSE "Polygon"
      [] r.type = "ConvexPolyhedron" -> IF r.rounding = "absent" THEN "ConvexPolyhedron"
                                        ELSE IF r.rounding = "negative" THEN "ValueError" ELSE "ConvexSpheropolyhedron"
      [] r.type = "Mesh" -> "Polyhedron"
      [] OTHER -> "ValueError"                      \* unknown type strings (also wrong capitalisation)

\* the spec type string and keys each class exports, and the dimensionality with which it must be re-imported
GsdType(c) == CASE c \in {"Circle", "Sphere"} -> "Sphere" [] c \in {"Ellipse", "Ellipsoid"} -> "Ellipsoid"
                [] c \in {"Polygon", "ConvexPolygon", "ConvexSpheropolygon"} -> "Polygon"
                [] c \in {"ConvexPolyhedron", "ConvexSpheropolyhedron"} -> "ConvexPolyhedron"
                [] c = "Polyhedron" -> "Mesh"
GsdDims(c) == IF c \in {"Circle", "Ellipse", "Polygon", "ConvexPolygon", "ConvexSpheropolygon"} THEN 2 ELSE 3
GsdKeys(c) == CASE c \in {"Circle", "Sphere"} -> {"type", "diameter"}
                [] c = "Ellipse" -> {"type", "a", "b"} [] c = "Ellipsoid" -> {"type", "a", "b", "c"}
                [] c \in {"Polygon", "ConvexPolygon", "ConvexPolyhedron"} -> {"type", "vertices"}
                [] c \in {"ConvexSpheropolygon", "ConvexSpheropolyhedron"} -> {"type", "vertices", "rounding_radius"}
                [] c = "Polyhedron" -> {"type", "vertices", "indices"}
\* class that must come back from from_gsd_type_shapes(shape.gsd_shape_spec, GsdDims): the same class
\* (a Polygon with a convex cycle comes back as the more specific ConvexPolygon: same polygon)
\* rzero: the shape's rounding radius is exactly 0 when exported (the setters allow it); it is still a rounded shape
RoundTripClass(c, convexCycle, rzero) ==
    Expected([type |-> GsdType(c), dims |-> GsdDims(c),
              rounding |-> IF "rounding_radius" \in GsdKeys(c) THEN (IF rzero THEN "zero" ELSE "positive") ELSE "absent",
              convex |-> convexCycle])
\* what GSD does not carry (documented loss): the centre of curved shapes and the normal of planar ones
GsdLoses(c) == IF c \in {"Circle", "Ellipse", "Sphere", "Ellipsoid"} THEN {"centre"}
               ELSE IF c \in {"Polygon", "ConvexPolygon", "ConvexSpheropolygon"} THEN {"normal"} ELSE {}
\* eval(repr(shape)) must give the same class and everything: vertices, faces, radii, semi-axes, centre, normal
ReprClass(c) == c
\* documented keys of to_hoomd
HoomdKeys(c) == CASE c \in {"Polygon", "ConvexPolygon"} -> {"vertices", "centroid", "sweep_radius", "area", "moment_inertia"}
                  [] c \in {"Polyhedron", "ConvexPolyhedron"} -> {"vertices", "faces", "centroid", "sweep_radius", "volume", "moment_inertia"}
                  [] c = "ConvexSpheropolygon" -> {"vertices", "centroid", "sweep_radius", "area"}
                  [] c = "ConvexSpheropolyhedron" -> {"vertices", "centroid", "sweep_radius", "volume"}
                  [] c = "Sphere" -> {"diameter", "centroid", "volume", "moment_inertia"}
                  [] c = "Ellipsoid" -> {"a", "b", "c", "centroid", "volume", "moment_inertia"}
                  [] OTHER -> {}                    \* Circle, Ellipse: no to_hoomd

Init == row \in Rows /\ phase = "row"
\* after the table rows, the round-trip actions per class
Next == /\ phase = "row" /\ phase' = "roundtrip"
        /\ row' \in [cls : Classes, convex : BOOLEAN, rzero : BOOLEAN]
Spec == Init /\ [][Next]_vars

\* T1: every exported spec is accepted by the importer and yields the exporting class (or its convex refinement)
T1_RoundTripAccepted == phase = "roundtrip" =>
    LET c == row.cls  conv == IF c = "Polygon" THEN row.convex ELSE TRUE
        back == RoundTripClass(c, conv, row.rzero) IN
    /\ back # "ValueError"
    /\ back = c \/ (c = "Polygon" /\ conv /\ back = "ConvexPolygon")

Record == IF phase = "row" THEN [k |-> "gsdrow", row |-> row, expected |-> Expected(row)]
          ELSE [k |-> "roundtrip", cls |-> row.cls, convex |-> row.convex, rzero |-> row.rzero,
                gsdtype |-> GsdType(row.cls), dims |-> GsdDims(row.cls), keys |-> GsdKeys(row.cls),
                back |-> RoundTripClass(row.cls, IF row.cls = "Polygon" THEN row.convex ELSE TRUE, row.rzero),
                loses |-> GsdLoses(row.cls), hoomd |-> HoomdKeys(row.cls)]
Emit == PrintT(ToJson(Record))
=============================================================================
