------------------------------ MODULE Families ------------------------------
(***************************************************************************)
(* C17: the truncation families 323+ and 423 (and the truncated            *)
(* tetrahedron family, the a = 1 edge of 323+) as exact half-space         *)
(* intersections.  For rational parameters (a, c) = (an, cn) / Dn the      *)
(* polytope is { x : n_i . x <= d_type(i) } with the plane table           *)
(* transcribed from the family definition (Chen et al. 2014); its          *)
(* vertices are the points where three planes with non-zero determinant    *)
(* meet and that satisfy every inequality - computed by Cramer's rule in   *)
(* integers (distances scaled by Dn).  The state space is the parameter    *)
(* grid; every state emits the exact vertex set, the squared minimal       *)
(* vertex separation and the domain verdict.                               *)
(***************************************************************************)
EXTENDS Exact, Json, TLC

CONSTANTS Fam,        \* "323" | "423"
          Dn,         \* common denominator of the parameter grid
          ANums, CNums \* numerators of a and c to visit (also outside the documented domain)

VARIABLES an, cn
vars == <<an, cn>>

Planes323 == << <<1, 1, 1>>, <<-1, -1, 1>>, <<-1, 1, -1>>, <<1, -1, -1>>, <<1, 1, -1>>, <<-1, -1, -1>>, <<-1, 1, 1>>, <<1, -1, 1>>,
                <<1, 0, 0>>, <<-1, 0, 0>>, <<0, 1, 0>>, <<0, -1, 0>>, <<0, 0, 1>>, <<0, 0, -1>> >>
Types323 == <<2, 2, 2, 2, 0, 0, 0, 0, 1, 1, 1, 1, 1, 1>>          \* 0 -> a, 1 -> b, 2 -> c
Planes423 == << <<1, 1, 1>>, <<-1, -1, 1>>, <<-1, 1, -1>>, <<1, -1, -1>>, <<1, 1, -1>>, <<-1, -1, -1>>, <<-1, 1, 1>>, <<1, -1, 1>>,
                <<1, 1, 0>>, <<1, -1, 0>>, <<-1, -1, 0>>, <<-1, 1, 0>>, <<1, 0, 1>>, <<1, 0, -1>>, <<-1, 0, -1>>, <<-1, 0, 1>>,
                <<0, 1, 1>>, <<0, 1, -1>>, <<0, -1, -1>>, <<0, -1, 1>>,
                <<1, 0, 0>>, <<-1, 0, 0>>, <<0, 1, 0>>, <<0, -1, 0>>, <<0, 0, 1>>, <<0, 0, -1>> >>
Types423 == <<2, 2, 2, 2, 2, 2, 2, 2, 1, 1, 1, 1, 1, 1, 1, 1, 1, 1, 1, 1, 0, 0, 0, 0, 0, 0>>
Planes == IF Fam = "323" THEN Planes323 ELSE Planes423
Types == IF Fam = "323" THEN Types323 ELSE Types423
BNum == IF Fam = "323" THEN Dn ELSE 2 * Dn                           \* b = 1 for 323+, b = 2 for 423 (scaled by Dn)
\* documented domain: 323+: a, c in [1, 3];  423: a in [1, 2], c in [2, 3]
InDomain == IF Fam = "323" THEN Dn <= an /\ an <= 3 * Dn /\ Dn <= cn /\ cn <= 3 * Dn
            ELSE Dn <= an /\ an <= 2 * Dn /\ 2 * Dn <= cn /\ cn <= 3 * Dn
Dist(i) == CASE Types[i] = 0 -> an [] Types[i] = 1 -> BNum [] Types[i] = 2 -> cn       \* scaled by Dn

Init == an \in ANums /\ cn \in CNums
Next == FALSE /\ UNCHANGED vars
Spec == Init /\ [][Next]_vars

NP == Len(Planes)
\* intersection of planes i, j, k: x = X / (Dn * det) with X by Cramer's rule on the scaled right-hand sides
Det(i, j, k) == Det3(Planes[i], Planes[j], Planes[k])
Xnum(i, j, k) ==
    LET A == Planes[i]  B == Planes[j]  C == Planes[k]
        r == <<Dist(i), Dist(j), Dist(k)>>
    IN << Det3(<<r[1], A[2], A[3]>>, <<r[2], B[2], B[3]>>, <<r[3], C[2], C[3]>>),
          Det3(<<A[1], r[1], A[3]>>, <<B[1], r[2], B[3]>>, <<C[1], r[3], C[3]>>),
          Det3(<<A[1], A[2], r[1]>>, <<B[1], B[2], r[2]>>, <<C[1], C[2], r[3]>>) >>
\* the point satisfies every inequality  n_m . x <= d_m :  n_m . X * sgn(det) <= Dist(m) * |det|
Feasible(i, j, k) == LET d == Det(i, j, k)  X == Xnum(i, j, k) IN
    \A m \in 1..NP : Dot3(Planes[m], X) * Sgn(d) <= Dist(m) * Abs(d)
\* the point as a normalised rational vector <<x, y, z, den>> with den > 0 (coordinates are x / den etc.)
Normal4(X, d) == LET s == Sgn(d)  g == Gcd(Gcd(Gcd(X[1], X[2]), X[3]), d)
                     gg == IF g = 0 THEN 1 ELSE g
                 IN <<(s * X[1]) \div gg, (s * X[2]) \div gg, (s * X[3]) \div gg, (Abs(d) * Dn) \div gg>>
\* normalise again after multiplying the denominator by Dn
Norm4(v) == LET g == Gcd(Gcd(Gcd(v[1], v[2]), v[3]), v[4]) IN <<v[1] \div g, v[2] \div g, v[3] \div g, v[4] \div g>>
Vertices == { Norm4(Normal4(Xnum(t[1], t[2], t[3]), Det(t[1], t[2], t[3]))) :
                t \in {u \in (1..NP) \X (1..NP) \X (1..NP) : u[1] < u[2] /\ u[2] < u[3] /\ Det(u[1], u[2], u[3]) # 0
                                                            /\ Feasible(u[1], u[2], u[3])} }
\* minimal distance between two vertices as <<num, den>> meaning sqrt(num) / den.  Every determinant of three plane normals of
\* these tables divides 12, so all vertices have coordinates in Z / (12 Dn): compare on that common lattice (avoids overflow).
CommonDen == 12 * Dn
OnLattice(v) == LET f == CommonDen \div v[4] IN <<v[1] * f, v[2] * f, v[3] * f>>
MinSep2(V) == IF Cardinality(V) < 2 THEN <<1, 1>> ELSE
              LET W == {OnLattice(v) : v \in V}
                  \* only pairs closer than Cap in every coordinate can be squared without overflow; if there is none the
                  \* separation is at least Cap / CommonDen and that lower bound is reported
                  Cap == 25000
                  near(pq) == \A k \in 1..3 : Abs(pq[1][k] - pq[2][k]) <= Cap
                  pairs == {pq \in W \X W : pq[1] # pq[2] /\ near(pq)}
              IN IF pairs = {} THEN <<Cap * Cap, CommonDen>>
                 ELSE LET best == CHOOSE pq \in pairs : \A rs \in pairs : Norm3sq(Sub3(pq[1], pq[2])) <= Norm3sq(Sub3(rs[1], rs[2]))
                      IN <<Norm3sq(Sub3(best[1], best[2])), CommonDen>>
T1_CommonLattice == InDomain => \A v \in Vertices : CommonDen % v[4] = 0

\* documented solids at the corners of the domains (number of vertices)
CornerVertices == IF Fam = "323" THEN
                     (IF an = Dn /\ cn = Dn THEN 6 ELSE IF (an = 3 * Dn /\ cn = Dn) \/ (an = Dn /\ cn = 3 * Dn) THEN 4
                      ELSE IF an = 3 * Dn /\ cn = 3 * Dn THEN 8 ELSE 0)
                  ELSE (IF an = Dn /\ cn = 2 * Dn THEN 12 ELSE IF an = 2 * Dn /\ cn = 2 * Dn THEN 6
                        ELSE IF an = Dn /\ cn = 3 * Dn THEN 8 ELSE IF an = 2 * Dn /\ cn = 3 * Dn THEN 14 ELSE 0)
\* T1: at the corners the intersection is the documented solid (by its number of vertices)
T1_Corners == (InDomain /\ CornerVertices # 0) => Cardinality(Vertices) = CornerVertices

Record == LET V == IF InDomain THEN Vertices ELSE {} IN
    [k |-> "family", fam |-> Fam, a |-> <<an, Dn>>, c |-> <<cn, Dn>>, indomain |-> InDomain,
     verts |-> V, minsep2 |-> MinSep2(V), corner |-> CornerVertices]
Emit == PrintT(ToJson(Record))
=============================================================================
