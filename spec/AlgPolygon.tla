----------------------------- MODULE AlgPolygon -----------------------------
(***************************************************************************)
(* Layer A: operator-per-function transcription of coxeter/shapes/polygon.py*)
(* for a polygon lying in the xy-plane with normal (0,0,nz), nz = +1 / -1,  *)
(* in exact integer arithmetic.  Each operator names the code it mirrors.   *)
(* The transcriptions follow the code as repaired by the fix: commits       *)
(* recorded in known_findings.json (see the Dev_ operators for what the     *)
(* pinned snapshot did instead).                                            *)
(***************************************************************************)
EXTENDS Exact, Sequences

\* Polygon.signed_area: proj_coord = z, coord1 = x, coord2 = y:
\*   sum_i x[i+1] * (y[i+2] - y[i]) * (|n| / (2 n_z));   returns twice the value
ASignedArea2(poly, nz) ==
    LET n == Len(poly)
        f == [i \in 1..n |-> poly[Nxt(i, n)][1] * (poly[Nxt(Nxt(i, n), n)][2] - poly[i][2])]
    IN nz * SumOver(1..n, f)

\* Polygon.centroid with nz = +1 (rotation into the plane is the identity):
\*   delta_i = x_i y_{i+1} - x_{i+1} y_i ;  c = sum (p_i + p_{i+1}) delta_i / (6 * signed area)
\* returned as numerators over the denominator 3 * ASignedArea2   (6 A = 3 * 2A)
ACentroidNum(poly) ==
    LET n == Len(poly)
        d == [i \in 1..n |-> poly[i][1] * poly[Nxt(i, n)][2] - poly[Nxt(i, n)][1] * poly[i][2]]
    IN << SumOver(1..n, [i \in 1..n |-> (poly[i][1] + poly[Nxt(i, n)][1]) * d[i]]),
          SumOver(1..n, [i \in 1..n |-> (poly[i][2] + poly[Nxt(i, n)][2]) * d[i]]) >>
\* what the pinned snapshot did: divide by 6 |A|  (wrong for clockwise vertex order)
Dev_CentroidDen_AbsArea(poly) == 3 * Abs(ASignedArea2(poly, 1))

\* Polygon.planar_moments_inertia (nz = +1): areas_i = x_i y_{i+1} - x_{i+1} y_i
\*   I_y, I_x = | sum areas_i (v_i^2 + v_i v_{i+1} + v_{i+1}^2) / 12 |   -> returned times 24
\*   I_xy = sum areas_i (x_i y_{i+1} + 2 x_i y_i + 2 x_{i+1} y_{i+1} + x_{i+1} y_i) / 24 * orientation sign
APlanar24(poly) ==
    LET n == Len(poly)
        ar == [i \in 1..n |-> poly[i][1] * poly[Nxt(i, n)][2] - poly[Nxt(i, n)][1] * poly[i][2]]
        sq(k) == SumOver(1..n, [i \in 1..n |->
                    ar[i] * (poly[i][k] * poly[i][k] + poly[i][k] * poly[Nxt(i, n)][k]
                             + poly[Nxt(i, n)][k] * poly[Nxt(i, n)][k])])
        xy == SumOver(1..n, [i \in 1..n |->
                    ar[i] * (poly[i][1] * poly[Nxt(i, n)][2] + 2 * poly[i][1] * poly[i][2]
                             + 2 * poly[Nxt(i, n)][1] * poly[Nxt(i, n)][2] + poly[Nxt(i, n)][1] * poly[i][2])])
        s == Sgn(SumOver(1..n, ar))
    IN [ix |-> 2 * Abs(sq(2)), iy |-> 2 * Abs(sq(1)), ixy |-> s * xy]
Dev_PlanarIxy_Abs(poly) == Abs(APlanar24(poly).ixy)    \* the pinned snapshot took abs() of the product moment

\* Polygon.is_inside: L/R half-plane winding number (Dickinson 2019), p and poly in one integer frame
AWinding(p, poly) ==
    LET n == Len(poly)
        vs(v) == LET dx == Sgn(v[1] - p[1]) IN IF dx # 0 THEN dx ELSE Sgn(v[2] - p[2])
        half(i) == LET a == poly[i]  b == poly[Nxt(i, n)]
                       cross == IF vs(b) - vs(a) # 0 THEN 1 ELSE 0
                       es == Sgn((a[1] - p[1]) * (b[2] - p[2]) - (a[2] - p[2]) * (b[1] - p[1]))
                   IN es * cross
        tot == SumOver(1..n, [i \in 1..n |-> half(i)])
    IN tot \div 2        \* floor division, as numpy's //
AIsInside(p, poly) == AWinding(p, poly) # 0

(* ---- coxeter/extern/polytri/polytri.py: triangulate (ear clipping), for a polygon in the xy-plane ------------------ *)
\* calculate_normal_3d (Newell): normal_z = sum (x2 - x1)(y2 + y1) = -2 * signed area
ANewellZ(poly) == LET n == Len(poly) IN
    SumOver(1..n, [i \in 1..n |-> (poly[Nxt(i, n)][1] - poly[i][1]) * (poly[Nxt(i, n)][2] + poly[i][2])])
\* any_point_in_triangle: barycentric coordinates of the other vertices w.r.t. (a; s = b - a, t = c - a), closed test
\*   ps = cross(p - a, t) / cross(s, t),  pt = cross(s, p - a) / cross(s, t);  inside iff ps >= 0, pt >= 0, ps + pt <= 1
\* (the fix: commit makes the closed test independent of rounding, which is what exact arithmetic decides)
ABaryInside(p, a, b, c) ==
    LET d == (b[1] - a[1]) * (c[2] - a[2]) - (b[2] - a[2]) * (c[1] - a[1])
        u == (p[1] - a[1]) * (c[2] - a[2]) - (p[2] - a[2]) * (c[1] - a[1])
        v == (b[1] - a[1]) * (p[2] - a[2]) - (b[2] - a[2]) * (p[1] - a[1])
    IN IF d > 0 THEN u >= 0 /\ v >= 0 /\ u + v <= d ELSE u <= 0 /\ v <= 0 /\ u + v >= d
\* one run of the while loop: state (polygon, i, triangles so far); "fail" when the scan index runs off the end.
\* cross(c - b, b - a)_z = -Orient2(a, b, c), so dot(normal, x) = -normal_z * Orient2(a, b, c); on the lattice a positive
\* value is at least |normal_z| >= 1e-6 * normal_z^2 for every polygon of area below 5e5, so the threshold is the sign test.
ADel(s, k) == [j \in 1..Len(s) - 1 |-> IF j < k THEN s[j] ELSE s[j + 1]]
RECURSIVE ATriLoop(_, _, _, _)
ATriLoop(pg, i, nz, acc) ==
    IF Len(pg) <= 2 THEN [ok |-> TRUE, tris |-> acc]
    ELSE IF i >= Len(pg) THEN [ok |-> FALSE, tris |-> acc]                    \* raise ValueError("Triangulation failed")
    ELSE LET n == Len(pg)
             a == pg[(i % n) + 1]  b == pg[((i + 1) % n) + 1]  c == pg[((i + 2) % n) + 1]
             others == {pg[((i + 3 + k) % n) + 1] : k \in 0..n - 4}
         IN IF a = b \/ b = c THEN ATriLoop(ADel(pg, ((i + 1) % n) + 1), i, nz, acc)
            ELSE IF -nz * Orient2(a, b, c) > 0 /\ ~\E p \in others : ABaryInside(p, a, b, c)
                 THEN ATriLoop(ADel(pg, ((i + 1) % n) + 1), 0, nz, Append(acc, <<a, b, c>>))
                 ELSE ATriLoop(pg, i + 1, nz, acc)
ATriangulate(poly) == ATriLoop(poly, 0, ANewellZ(poly), <<>>)
\* the seeded change "continue from the current corner instead of rescanning" (i %= len after a clip), kept as a named
\* wrong variant: T1 must refute it on some relabelling of some polygon (non-vacuity of T1_Triangulate)
RECURSIVE WrongTriLoop(_, _, _, _)
WrongTriLoop(pg, i, nz, acc) ==
    IF Len(pg) <= 2 THEN [ok |-> TRUE, tris |-> acc]
    ELSE IF i >= Len(pg) THEN [ok |-> FALSE, tris |-> acc]
    ELSE LET n == Len(pg)
             a == pg[(i % n) + 1]  b == pg[((i + 1) % n) + 1]  c == pg[((i + 2) % n) + 1]
             others == {pg[((i + 3 + k) % n) + 1] : k \in 0..n - 4}
         IN IF a = b \/ b = c THEN WrongTriLoop(ADel(pg, ((i + 1) % n) + 1), i, nz, acc)
            ELSE IF -nz * Orient2(a, b, c) > 0 /\ ~\E p \in others : ABaryInside(p, a, b, c)
                 THEN WrongTriLoop(ADel(pg, ((i + 1) % n) + 1), i % (n - 1), nz, Append(acc, <<a, b, c>>))
                 ELSE WrongTriLoop(pg, i + 1, nz, acc)
=============================================================================
