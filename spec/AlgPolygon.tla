----------------------------- MODULE AlgPolygon -----------------------------
(***************************************************************************)
(* Layer A: operator-per-function transcription of coxeter/shapes/polygon.py*)
(* for a polygon lying in the xy-plane with normal (0,0,nz), nz = +1 / -1,  *)
(* in exact integer arithmetic.  Each operator names the code it mirrors.   *)
(* The transcriptions follow the code as repaired by the fix: commits       *)
(* recorded in known_findings.json (see the Dev_ operators for what the     *)
(* pinned snapshot did instead).                                            *)
(***************************************************************************)
EXTENDS Exact

\* Polygon.signed_area: proj_coord = z, coord1 = x, coord2 = y:
\*   sum_i x[i+1] * (y[i+2] - y[i]) * (|n| / (2 n_z));   returns twice the value
ASignedArea2(poly, nz) ==
    LET n == Len(poly)
        f == [i \in 1..n |-> poly[Nxt(i, n)][1] * (poly[Nxt(Nxt(i, n), n)][2] - poly[i][2])]
    IN nz * SumOver(1..n, f)

\* Polygon.centroid with nz = +1 (rotation into the plane is the identity):
\*   delta_i = x_i y_{i+1} - x_{i+1} y_i ;  c = sum (p_i + p_{i+1}) delta_i / (6 * signed area)
\* returned as numerators over the denominator 3 * ASignedArea2   (6 A = 3 * 2A)
ACentroidNum(poly) ==
    LET n == Len(poly)
        d == [i \in 1..n |-> poly[i][1] * poly[Nxt(i, n)][2] - poly[Nxt(i, n)][1] * poly[i][2]]
    IN << SumOver(1..n, [i \in 1..n |-> (poly[i][1] + poly[Nxt(i, n)][1]) * d[i]]),
          SumOver(1..n, [i \in 1..n |-> (poly[i][2] + poly[Nxt(i, n)][2]) * d[i]]) >>
\* what the pinned snapshot did: divide by 6 |A|  (wrong for clockwise vertex order)
Dev_CentroidDen_AbsArea(poly) == 3 * Abs(ASignedArea2(poly, 1))

\* Polygon.planar_moments_inertia (nz = +1): areas_i = x_i y_{i+1} - x_{i+1} y_i
\*   I_y, I_x = | sum areas_i (v_i^2 + v_i v_{i+1} + v_{i+1}^2) / 12 |   -> returned times 24
\*   I_xy = sum areas_i (x_i y_{i+1} + 2 x_i y_i + 2 x_{i+1} y_{i+1} + x_{i+1} y_i) / 24 * orientation sign
APlanar24(poly) ==
    LET n == Len(poly)
        ar == [i \in 1..n |-> poly[i][1] * poly[Nxt(i, n)][2] - poly[Nxt(i, n)][1] * poly[i][2]]
        sq(k) == SumOver(1..n, [i \in 1..n |->
                    ar[i] * (poly[i][k] * poly[i][k] + poly[i][k] * poly[Nxt(i, n)][k]
                             + poly[Nxt(i, n)][k] * poly[Nxt(i, n)][k])])
        xy == SumOver(1..n, [i \in 1..n |->
                    ar[i] * (poly[i][1] * poly[Nxt(i, n)][2] + 2 * poly[i][1] * poly[i][2]
                             + 2 * poly[Nxt(i, n)][1] * poly[Nxt(i, n)][2] + poly[Nxt(i, n)][1] * poly[i][2])])
        s == Sgn(SumOver(1..n, ar))
    IN [ix |-> 2 * Abs(sq(2)), iy |-> 2 * Abs(sq(1)), ixy |-> s * xy]
Dev_PlanarIxy_Abs(poly) == Abs(APlanar24(poly).ixy)    \* the pinned snapshot took abs() of the product moment

\* Polygon.is_inside: L/R half-plane winding number (Dickinson 2019), p and poly in one integer frame
AWinding(p, poly) ==
    LET n == Len(poly)
        vs(v) == LET dx == Sgn(v[1] - p[1]) IN IF dx # 0 THEN dx ELSE Sgn(v[2] - p[2])
        half(i) == LET a == poly[i]  b == poly[Nxt(i, n)]
                       cross == IF vs(b) - vs(a) # 0 THEN 1 ELSE 0
                       es == Sgn((a[1] - p[1]) * (b[2] - p[2]) - (a[2] - p[2]) * (b[1] - p[1]))
                   IN es * cross
        tot == SumOver(1..n, [i \in 1..n |-> half(i)])
    IN tot \div 2        \* floor division, as numpy's //
AIsInside(p, poly) == AWinding(p, poly) # 0
=============================================================================
