---------------------------- MODULE ShapeMachine ----------------------------
(***************************************************************************)
(* Layer M: a coxeter shape object as a state machine (C03, C08, parts of  *)
(* C16/C19).  One action per public mutating call.  The abstract state is  *)
(*   s      - the similarity factor applied so far (exact rational; every  *)
(*            size setter multiplies ALL coordinates, i.e. scales about    *)
(*            the origin, so the centroid moves with it)                   *)
(*   cen    - where the centroid is: "base" (never assigned), "origin" or  *)
(*            "target" (just assigned), "other" (moved by a later scaling  *)
(*            or rotation; the harness tracks the exact point with the law *)
(*            centroid' = lambda * centroid)                               *)
(*   rot    - whether diagonalize_inertia has re-oriented the shape        *)
(*   chir   - chirality (+1; a mirror image would be -1)                   *)
(*   rr     - the rounding radius as a multiple of the base radius         *)
(*   fv     - face structure version (given / sorted / merged)             *)
(*   ecache - whether the memoised edge list has been read                 *)
(*   stale  - stored fields that lag behind the vertices (stamp algebra:   *)
(*            every operation dirties the fields that depend on what it    *)
(*            changed and refreshes the ones the code recomputes)          *)
(*   ret    - outcome of the last call (exception class or "none")         *)
(* Every transition is printed (pre, op, post) so that the harness can     *)
(* replay one implementation test per transition of the state graph.       *)
(***************************************************************************)
EXTENDS Integers, Sequences, FiniteSets, TLC, Json

CONSTANTS Cls,          \* class name
          Lambdas,      \* scale factors <<n, d>> offered to the size setters
          MaxNum,       \* bound on numerator and denominator of s (keeps the graph finite)
          HasCircum,    \* the base shape has a circumsphere / circumcircle
          HasIn,        \* the base shape has an insphere / incircle
          FacesConvex,  \* Polyhedron base was built with faces_are_convex (sort/merge allowed)
          EmitOn

VARIABLES s, cen, rot, chir, rr, fv, ecache, stale, ret
vars == <<s, cen, rot, chir, rr, fv, ecache, stale, ret>>
St == [s |-> s, cen |-> cen, rot |-> rot, chir |-> chir, rr |-> rr, fv |-> fv, ecache |-> ecache, stale |-> stale]

(* ---- rationals <<n,d>> (small) ---------------------------------------------------------- *)
RECURSIVE GcdN(_, _)
GcdN(a, b) == IF b = 0 THEN a ELSE GcdN(b, a % b)
Norm(q) == LET g == GcdN(q[1], q[2]) IN <<q[1] \div g, q[2] \div g>>
QMul(a, b) == Norm(<<a[1] * b[1], a[2] * b[2]>>)
One == <<1, 1>>
Small(q) == q[1] <= MaxNum /\ q[2] <= MaxNum

(* ---- the class tables ---------------------------------------------------------------------- *)
Is3D == Cls \in {"ConvexPolyhedron", "Polyhedron", "ConvexSpheropolyhedron"}
IsPolyhedron == Cls \in {"ConvexPolyhedron", "Polyhedron"}
IsSphero == Cls \in {"ConvexSpheropolyhedron", "ConvexSpheropolygon"}
IsCurved == Cls \in {"Circle", "Ellipse", "Sphere", "Ellipsoid"}
HasCentroid == Cls \in {"ConvexPolyhedron", "Polyhedron", "Polygon", "ConvexPolygon"} \/ IsCurved
\* semi-axes that can be assigned one at a time (not a similarity): changes only that axis
AxisProps == CASE Cls = "Ellipse" -> {"a", "b"} [] Cls = "Ellipsoid" -> {"a", "b", "c"} [] OTHER -> {}

\* every settable size-like member (the harness cross-checks this table against reflection)
SizeProps ==
    CASE Cls = "ConvexPolyhedron" -> {"volume", "surface_area", "circumsphere_radius", "insphere_radius",
                                      "minimal_bounding_sphere_radius", "minimal_centered_bounding_sphere_radius",
                                      "maximal_centered_bounded_sphere_radius", "maximal_bounded_sphere_radius"}
      [] Cls = "Polyhedron" -> {"volume", "surface_area", "circumsphere_radius", "insphere_radius",
                                "minimal_bounding_sphere_radius", "minimal_centered_bounding_sphere_radius",
                                "maximal_centered_bounded_sphere_radius", "maximal_bounded_sphere_radius"}
      [] Cls = "ConvexSpheropolyhedron" -> {"volume", "surface_area", "mean_curvature",
                                "minimal_bounding_sphere_radius", "minimal_centered_bounding_sphere_radius",
                                "maximal_centered_bounded_sphere_radius", "maximal_bounded_sphere_radius"}
      [] Cls = "Polygon" -> {"area", "perimeter", "circumcircle_radius", "incircle_radius",
                             "minimal_bounding_circle_radius", "minimal_centered_bounding_circle_radius",
                             "maximal_centered_bounded_circle_radius", "maximal_bounded_circle_radius"}
      [] Cls = "ConvexPolygon" -> {"area", "perimeter", "circumcircle_radius", "incircle_radius",
                             "minimal_bounding_circle_radius", "minimal_centered_bounding_circle_radius",
                             "maximal_centered_bounded_circle_radius", "maximal_bounded_circle_radius"}
      [] Cls = "ConvexSpheropolygon" -> {"area", "perimeter",
                             "minimal_bounding_circle_radius", "minimal_centered_bounding_circle_radius",
                             "maximal_centered_bounded_circle_radius", "maximal_bounded_circle_radius"}
      [] Cls = "Circle" -> {"radius", "area", "perimeter", "circumference",
                             "minimal_bounding_circle_radius", "minimal_centered_bounding_circle_radius",
                             "maximal_centered_bounded_circle_radius", "maximal_bounded_circle_radius"}
      [] Cls = "Ellipse" -> {"area", "perimeter", "circumference",
                             "minimal_bounding_circle_radius", "minimal_centered_bounding_circle_radius",
                             "maximal_centered_bounded_circle_radius", "maximal_bounded_circle_radius"}
      [] Cls = "Sphere" -> {"radius", "diameter", "volume", "surface_area",
                             "minimal_bounding_sphere_radius", "minimal_centered_bounding_sphere_radius",
                             "maximal_centered_bounded_sphere_radius", "maximal_bounded_sphere_radius"}
      [] Cls = "Ellipsoid" -> {"volume", "surface_area",
                             "minimal_bounding_sphere_radius", "minimal_centered_bounding_sphere_radius",
                             "maximal_centered_bounded_sphere_radius", "maximal_bounded_sphere_radius"}
\* members whose getter is not implemented for the class: the setter must raise NotImplementedError, no change
Unsupported ==
    CASE Cls = "ConvexPolyhedron" -> {"maximal_bounded_sphere_radius"}
      [] Cls = "Polyhedron" -> {"minimal_centered_bounding_sphere_radius", "maximal_centered_bounded_sphere_radius",
                                "maximal_bounded_sphere_radius"}
      [] Cls = "ConvexSpheropolyhedron" -> {"minimal_bounding_sphere_radius", "minimal_centered_bounding_sphere_radius",
                                "maximal_centered_bounded_sphere_radius", "maximal_bounded_sphere_radius"}
      [] Cls = "Polygon" -> {"minimal_centered_bounding_circle_radius", "maximal_centered_bounded_circle_radius",
                             "maximal_bounded_circle_radius"}
      [] Cls = "ConvexPolygon" -> {"maximal_bounded_circle_radius"}
      [] Cls = "ConvexSpheropolygon" -> {"minimal_bounding_circle_radius", "minimal_centered_bounding_circle_radius",
                             "maximal_centered_bounded_circle_radius", "maximal_bounded_circle_radius"}
      [] OTHER -> {}             \* curved shapes implement every ball
Degree(p) == IF p = "volume" THEN 3 ELSE IF p \in {"surface_area", "area"} THEN 2 ELSE 1
NeedsCircum(p) == p \in {"circumsphere_radius", "circumcircle_radius"}
NeedsIn(p) == p \in {"insphere_radius", "incircle_radius"}
\* what assigning to p must raise before touching the shape ("none" = the assignment is honoured)
Refusal(p) == IF p \in Unsupported THEN "NotImplementedError"
              ELSE IF NeedsCircum(p) /\ ~HasCircum THEN "RuntimeError"
              ELSE IF NeedsIn(p) /\ ~HasIn THEN "RuntimeError" ELSE "none"

\* stored (cached) fields per class, and the stamp algebra of each operation: Dirty = fields that depend on what
\* the operation changes, Refresh = fields the (repaired) code recomputes or updates analytically.
Fields == CASE Cls = "ConvexPolyhedron" -> {"equations", "simplex_equations", "volume", "area", "centroid", "neighbors", "edges"}
            [] Cls = "Polyhedron" -> {"equations", "neighbors", "edges"}
            [] Cls = "ConvexSpheropolyhedron" -> {"equations", "simplex_equations", "volume", "area", "centroid", "neighbors", "edges"}
            [] OTHER -> {}
MetricFields == Fields \ {"neighbors", "edges"}
DirtyBy(op) == CASE op = "rescale" -> MetricFields
                 [] op = "translate" -> MetricFields \ {"volume", "area"}
                 [] op = "rotate" -> MetricFields \ {"volume", "area"}
                 [] op = "refacet" -> {"neighbors", "edges", "equations"} \cap Fields
                 [] OTHER -> {}
RefreshBy(op) == CASE op = "rescale" -> MetricFields          \* d*k, V*k^3, A*k^2, centroid recomputed
                   [] op = "translate" -> MetricFields
                   [] op = "rotate" -> MetricFields           \* after fix: equations recomputed as well
                   [] op = "refacet" -> {"neighbors", "edges", "equations"} \cap Fields   \* after fix: edge cache dropped
                   [] OTHER -> {}
\* what the pinned snapshot did (named deviations, now repaired in /repo):
Dev_RotateLeavesEquationsStale == MetricFields \ {"equations"}
Dev_RefacetLeavesEdgesStale == {"neighbors", "equations"} \cap Fields
Apply(op) == (stale \cup DirtyBy(op)) \ RefreshBy(op)

(* ---- actions ------------------------------------------------------------------------------- *)
Ok(op, args) == [op |-> op, args |-> args, exc |-> "none"]
Raised(op, args, e) == [op |-> op, args |-> args, exc |-> e]
Log == EmitOn => PrintT(ToJson([k |-> "edge", cls |-> Cls, pre |-> St, ret |-> ret', post |-> St']))

Init == /\ s = One /\ cen = "base" /\ rot = 0 /\ chir = 1 /\ rr = One
        /\ fv = "given" /\ ecache = FALSE /\ stale = {} /\ ret = Ok("construct", <<>>)

\* obj.p = current * lambda^Degree(p)
SetSize(p, l) ==
    /\ p \in SizeProps
    /\ IF Refusal(p) # "none"
       THEN ret' = Raised("set", <<p, l>>, Refusal(p)) /\ UNCHANGED <<s, cen, rot, chir, rr, fv, ecache, stale>>
       ELSE /\ Small(QMul(s, l))
            /\ s' = QMul(s, l)
            /\ cen' = IF IsCurved THEN cen        \* curved shapes scale about their centre, vertex shapes about the origin
                       ELSE IF cen = "origin" THEN "origin" ELSE IF cen = "base" THEN "base" ELSE "other"
            /\ rr' = IF IsSphero THEN rr ELSE rr          \* the rounding radius scales with the shape: rr is relative to s
            /\ stale' = Apply("rescale")
            /\ ret' = Ok("set", <<p, l>>)
            /\ UNCHANGED <<rot, chir, fv, ecache>>
    /\ Log

\* obj.p = current * (1 + 3e-6)^Degree(p): a target that differs from the current value only in the sixth digit is still a
\* target (a setter must not decide by np.isclose that the shape "already has" the requested size).  The abstract scale s keeps
\* its value (the bucket is the same); the harness tracks the exact factor 1000003/1000000.
NearLambda == <<1000003, 1000000>>
SetSizeNear(p) ==
    /\ p \in SizeProps
    /\ Refusal(p) = "none"
    /\ stale' = Apply("rescale")
    /\ ret' = Ok("setnear", <<p, NearLambda>>)
    /\ UNCHANGED <<s, cen, rot, chir, rr, fv, ecache>>
    /\ Log

\* obj.p = 0, a negative number or nan: refused, nothing changes
SetBad(p, b) ==
    /\ p \in SizeProps
    /\ ret' = Raised("setbad", <<p, b>>, IF Refusal(p) # "none" THEN Refusal(p) ELSE "ValueError")
    /\ UNCHANGED <<s, cen, rot, chir, rr, fv, ecache, stale>>
    /\ Log

\* obj.centroid = target k  (obj.center likewise)
SetCentroid(k, alias) ==
    /\ IF HasCentroid
       THEN /\ cen' = IF k = "nudge" THEN "other" ELSE k     \* "nudge": the current centroid plus a displacement of 1e-6 of its size
            /\ stale' = Apply("translate")
            /\ ret' = Ok("centroid", <<k, alias>>)
            /\ UNCHANGED <<s, rot, chir, rr, fv, ecache>>
       ELSE /\ ret' = Raised("centroid", <<k, alias>>, "AttributeError")
            /\ UNCHANGED <<s, cen, rot, chir, rr, fv, ecache, stale>>
    /\ Log

\* the rounded shapes hand out their live core (obj.polyhedron / obj.polygon): resizing the core through ITS public setter
\* scales the vertices by l and leaves the rounding radius alone, so the radius relative to the size shrinks by l
CoreSizeProps == IF Cls = "ConvexSpheropolyhedron" THEN {"volume", "surface_area"}
                 ELSE IF Cls = "ConvexSpheropolygon" THEN {"area", "perimeter"} ELSE {}
SetCoreSize(p, l) ==
    /\ p \in CoreSizeProps
    /\ Small(QMul(s, l)) /\ Small(QMul(rr, <<l[2], l[1]>>))
    /\ s' = QMul(s, l)
    /\ rr' = QMul(rr, <<l[2], l[1]>>)
    /\ stale' = Apply("rescale")
    /\ ret' = Ok("coreset", <<p, l>>)
    /\ UNCHANGED <<cen, rot, chir, fv, ecache>>
    /\ Log

\* moving the live core through ITS centroid setter: the rounded shape follows (it has no centroid setter of its own)
SetCoreCentroid(k) ==
    /\ IsSphero
    /\ cen' = k
    /\ stale' = Apply("translate")
    /\ ret' = Ok("corecentroid", <<k>>)
    /\ UNCHANGED <<s, rot, chir, rr, fv, ecache>>
    /\ Log

\* every question the library answers, put to the shape or to its live core between two mutations: the abstract state does not
\* change (QueryPure), and whatever the implementation memoises while answering belongs to the geometry of THIS state - the
\* next mutation has to refresh or drop it (Coherent is evaluated by the replayer on the shape and on the core after every step)
Read(who) ==
    /\ who = "core" => IsSphero
    /\ ret' = Ok("read", <<who>>)
    /\ UNCHANGED <<s, cen, rot, chir, rr, fv, ecache, stale>>
    /\ Log

\* ReachByHistory (used by the evaluators of C05, C11, C13, C14 through vh/history.py): the behaviour
\*   Init(scale g, elsewhere) ; Read("shape") ; Read("core") ; SetSize(p, 1/g) | (SetCoreSize(p, 1/g) ; SetRadius(1/g)) ;
\*   Read("shape") ; Read("core") ; SetCentroid("target") | SetCoreCentroid("target")
\* ends in a state whose St equals that of a shape constructed at the target directly (SetterSimilar + the translation law),
\* so every exact value computed for the constructed shape is also the required answer of the shape reached this way.

\* obj.centroid = a malformed value (two or four numbers, a None entry, a matrix): whatever exception it raises - or if the
\* class has no centroid setter - the shape is left as it was.  (Acceptance is not modelled: the harness stops such a history.)
SetCentroidBad(b, alias) ==
    /\ ret' = Raised("centroidbad", <<b, alias>>, "any")
    /\ UNCHANGED <<s, cen, rot, chir, rr, fv, ecache, stale>>
    /\ Log

\* rounding radius of the spheropolytopes: obj.radius = radius * l  (not a similarity), l = 0 allowed
SetRadius(l) ==
    /\ IsSphero
    /\ Small(QMul(rr, l))
    /\ rr' = QMul(rr, l)
    /\ ret' = Ok("radius", <<l>>)
    /\ UNCHANGED <<s, cen, rot, chir, fv, ecache, stale>>
    /\ Log
\* obj.a = a * l for one semi-axis of an ellipse / ellipsoid; zero and negative values are refused
SetAxis(p, l) ==
    /\ p \in AxisProps
    /\ ret' = Ok("axis", <<p, l>>)
    /\ UNCHANGED <<s, cen, rot, chir, rr, fv, ecache, stale>>
    /\ Log
SetAxisBad(p, b) ==
    /\ p \in AxisProps
    /\ ret' = Raised("axisbad", <<p, b>>, "ValueError")
    /\ UNCHANGED <<s, cen, rot, chir, rr, fv, ecache, stale>>
    /\ Log
SetRadiusNegative ==
    /\ IsSphero
    /\ ret' = Raised("radiusbad", <<>>, "ValueError")
    /\ UNCHANGED <<s, cen, rot, chir, rr, fv, ecache, stale>>
    /\ Log

\* a proper rotation onto the principal axes: never a mirror image
Diagonalize ==
    /\ IsPolyhedron
    /\ rot' = 1 /\ chir' = chir
    /\ cen' = IF cen = "origin" THEN "origin" ELSE "other"
    /\ stale' = Apply("rotate")
    /\ ret' = Ok("diagonalize_inertia", <<>>)
    /\ UNCHANGED <<s, rr, fv, ecache>>
    /\ Log

SortFaces ==
    /\ IsPolyhedron
    /\ IF Cls = "Polyhedron" /\ ~FacesConvex
       THEN ret' = Raised("sort_faces", <<>>, "ValueError") /\ UNCHANGED <<s, cen, rot, chir, rr, fv, ecache, stale>>
       ELSE /\ fv' = IF fv = "given" THEN "sorted" ELSE fv
            /\ ecache' = FALSE
            /\ stale' = Apply("refacet")
            /\ ret' = Ok("sort_faces", <<>>)
            /\ UNCHANGED <<s, cen, rot, chir, rr>>
    /\ Log
MergeFaces ==
    /\ IsPolyhedron
    /\ IF Cls = "Polyhedron" /\ ~FacesConvex
       THEN ret' = Raised("merge_faces", <<>>, "ValueError") /\ UNCHANGED <<s, cen, rot, chir, rr, fv, ecache, stale>>
       ELSE /\ fv' = "merged"
            /\ ecache' = FALSE
            /\ stale' = Apply("refacet")
            /\ ret' = Ok("merge_faces", <<>>)
            /\ UNCHANGED <<s, cen, rot, chir, rr>>
    /\ Log
\* queries that change hidden state (the memoised edge list) or move the shape and move it back
ReadEdges == /\ IsPolyhedron /\ ecache' = TRUE /\ ret' = Ok("edges", <<>>)
             /\ UNCHANGED <<s, cen, rot, chir, rr, fv, stale>> /\ Log
ToHoomd == /\ Cls \notin {"Circle", "Ellipse"}      \* Circle and Ellipse have no to_hoomd
           /\ ret' = Ok("to_hoomd", <<>>) /\ stale' = Apply("translate")
           /\ UNCHANGED <<s, cen, rot, chir, rr, fv, ecache>> /\ Log

Next == \/ \E p \in SizeProps, l \in Lambdas : SetSize(p, l)
        \/ \E p \in SizeProps : SetSizeNear(p)
        \/ \E p \in SizeProps, b \in {"zero", "negative", "nan"} : SetBad(p, b)
        \/ \E k \in {"origin", "target", "nudge"}, a \in {"centroid", "center"} : SetCentroid(k, a)
        \/ \E b \in {"short", "long", "none", "matrix"}, a \in {"centroid", "center"} : SetCentroidBad(b, a)
        \/ \E l \in Lambdas \cup {<<0, 1>>} : SetRadius(l)
        \/ \E p \in CoreSizeProps, l \in Lambdas : SetCoreSize(p, l)
        \/ SetRadiusNegative
        \/ \E k \in {"origin", "target"} : SetCoreCentroid(k)
        \/ \E who \in {"shape", "core"} : Read(who)
        \/ \E p \in AxisProps, l \in Lambdas : SetAxis(p, l)
        \/ \E p \in AxisProps, b \in {"zero", "negative", "nan"} : SetAxisBad(p, b)
        \/ Diagonalize \/ SortFaces \/ MergeFaces \/ ReadEdges \/ ToHoomd
Spec == Init /\ [][Next]_vars

(* ---- the properties (C03, C08) --------------------------------------------------------------- *)
Coherent == stale = {}                                                          \* no stored quantity lags behind
NoMirror == chir = 1
FailAtomic == [][ret'.exc # "none" => St' = St]_vars                            \* a refused call changes nothing
SetterSimilar == [][ret'.op = "set" /\ ret'.exc = "none" =>
                      /\ s' = QMul(s, ret'.args[2])                             \* pure similarity by lambda
                      /\ rot' = rot /\ chir' = chir /\ fv' = fv /\ rr' = rr]_vars
NearSetterSimilar == [][ret'.op = "setnear" => ret'.exc = "none" /\ [St' EXCEPT !.stale = {}] = [St EXCEPT !.stale = {}]]_vars
BadCentreAtomic == [][ret'.op = "centroidbad" => St' = St]_vars
BadTargetRefused == [][ret'.op = "setbad" => ret'.exc \in {"ValueError", "NotImplementedError", "RuntimeError"} /\ St' = St]_vars
QueryPure == [][ret'.op \in {"to_hoomd", "read"} => [St' EXCEPT !.stale = {}] = [St EXCEPT !.stale = {}]]_vars
ViewSt == St
=============================================================================
