-------------------------- MODULE UniformFamilies --------------------------
(***************************************************************************)
(* C17 (second part) and C18: what the analytically generated and the      *)
(* tabulated shape families must contain.  States are (family, n) or       *)
(* (family, name); each emits the combinatorial facts the harness checks   *)
(* on the implementation's output together with the metric predicates      *)
(* (unit volume / area, equal edges, regular faces, centred, insphere).    *)
(***************************************************************************)
EXTENDS Integers, Sequences, FiniteSets, TLC, Json

CONSTANTS MaxN
VARIABLES fam, n
vars == <<fam, n>>
Uniform == {"ngon", "prism", "antiprism", "pyramid", "dipyramid"}

Admissible(f, k) == IF f \in {"pyramid", "dipyramid"} THEN 3 <= k /\ k <= 5 ELSE k >= 3
\* <<vertices, edges, faces>>
Counts(f, k) == CASE f = "ngon" -> <<k, k, 1>> [] f = "prism" -> <<2 * k, 3 * k, k + 2>>
                  [] f = "antiprism" -> <<2 * k, 4 * k, 2 * k + 2>> [] f = "pyramid" -> <<k + 1, 2 * k, k + 1>>
                  [] f = "dipyramid" -> <<k + 2, 3 * k, 2 * k>>
\* multiset of face degrees as <<degree, how many>> pairs (a prism over a square has 6 squares)
FaceDegrees(f, k) == CASE f = "prism" -> IF k = 4 THEN {<<4, 6>>} ELSE {<<k, 2>>, <<4, k>>}
                       [] f = "antiprism" -> IF k = 3 THEN {<<3, 8>>} ELSE {<<k, 2>>, <<3, 2 * k>>}
                       [] f = "pyramid" -> IF k = 3 THEN {<<3, 4>>} ELSE {<<k, 1>>, <<3, k>>}
                       [] f = "dipyramid" -> {<<3, 2 * k>>}
                       [] OTHER -> {}
Euler(f, k) == f = "ngon" \/ Counts(f, k)[1] - Counts(f, k)[2] + Counts(f, k)[3] = 2

\* documented solids at the four corners of the 523 family's domain, (a, c) with s = 1/phi, S = phi:
\*   1: (1, S^2) icosidodecahedron   2: (s sqrt5, S^2) icosahedron   3: (1, 3) dodecahedron   4: (s sqrt5, 3) rhombic triacontahedron
Corner523(k) == CASE k = 1 -> <<30, 60, 32>> [] k = 2 -> <<12, 30, 20>> [] k = 3 -> <<20, 30, 12>> [] k = 4 -> <<32, 60, 30>>

Init == (fam \in Uniform /\ n \in 0..MaxN) \/ (fam = "523corner" /\ n \in 1..4)
Next == FALSE /\ UNCHANGED vars
Spec == Init /\ [][Next]_vars
T1_Euler == IF fam = "523corner" THEN Corner523(n)[1] - Corner523(n)[2] + Corner523(n)[3] = 2 ELSE Admissible(fam, n) => Euler(fam, n)
T1_DegreeSum == (fam # "523corner" /\ Admissible(fam, n) /\ fam # "ngon") =>
    \* the face degrees add up to twice the number of edges, and their number to the number of faces
    LET D == FaceDegrees(fam, n) IN
    /\ (LET s[S \in SUBSET D] == IF S = {} THEN 0 ELSE LET x == CHOOSE y \in S : TRUE IN x[1] * x[2] + s[S \ {x}] IN s[D]) = 2 * Counts(fam, n)[2]
    /\ (LET c[S \in SUBSET D] == IF S = {} THEN 0 ELSE LET x == CHOOSE y \in S : TRUE IN x[2] + c[S \ {x}] IN c[D]) = Counts(fam, n)[3]
Record == IF fam = "523corner" THEN [k |-> "corner523", n |-> n, counts |-> Corner523(n)] ELSE
          [k |-> "uniform", fam |-> fam, n |-> n, admissible |-> Admissible(fam, n),
           counts |-> IF Admissible(fam, n) THEN Counts(fam, n) ELSE <<>>,
           degrees |-> IF Admissible(fam, n) THEN FaceDegrees(fam, n) ELSE {}]
Emit == PrintT(ToJson(Record))
=============================================================================
