----------------------------- MODULE HeapModel -----------------------------
(***************************************************************************)
(* Layer M, heap part (C15 "a constructor never stores the caller's        *)
(* arrays", C16 "queries do not alter arrays handed out earlier", C19      *)
(* "to_hoomd describes the centred shape").  Arrays are objects with       *)
(* identity; the shape's fields hold references; in-place statements       *)
(* (+=, *=, face[:] = ...) change the object, rebinding statements make a  *)
(* field point to a new object.  Each public call is one action whose body *)
(* is the statement sequence of the (repaired) code; Dev_ operators keep   *)
(* what the pinned snapshot did.  Abstract array contents:                 *)
(*   pos  "P" = at the shape's position, "O" = centred at the origin       *)
(*   ori  "N" = native orientation, "Z" = rotated into the xy-plane        *)
(*   ver  content version (bumped by mutators)                             *)
(* Every transition is printed with the alias facts the harness observes   *)
(* on the real object.                                                     *)
(***************************************************************************)
EXTENDS Integers, Sequences, FiniteSets, TLC, Json

CONSTANTS Kind,      \* "polygon" | "polyhedron" | "curved"
          MaxOps,    \* bound on the number of calls
          Pinned,    \* TRUE: the bodies of the pinned snapshot (Dev_ operators) - the invariants must then FAIL (canary)
          EmitOn

VARIABLES heap,      \* function id -> content record
          field,     \* function field name -> id
          handed,    \* set of <<id, content>>: references the caller obtained from getters
          owned,     \* set of <<id, content>>: arrays the caller passed in (constructor / setter arguments)
          result,    \* [ids |-> set of ids reachable from the last return value, centred |-> the reported centroid is (0,0,0)]
          nops, ret
vars == <<heap, field, handed, owned, result, nops, ret>>

Val(p, o, v) == [pos |-> p, ori |-> o, ver |-> v]
FieldNames == CASE Kind = "polygon" -> {"vertices", "normal"}
                [] Kind = "polyhedron" -> {"vertices", "faces", "equations"}
                [] Kind = "curved" -> {"centroid"}
MainField == IF Kind = "curved" THEN "centroid" ELSE "vertices"
NewId == 1 + Cardinality(DOMAIN heap)          \* ids are 1..n, never reused
Alloc(h, c) == h @@ (NewId :> c)

(* ---- constructor: the caller passes one array per field -------------------------------------- *)
\* what the pinned snapshot did for Polyhedron faces and curved centres: keep the caller's object
Dev_ConstructorKeepsCallerArray == {"faces", "centroid"}
\* repaired code copies every argument (np.array / [np.array(f) for f in faces])
Init ==
    LET args == [f \in FieldNames |-> Val("P", "N", 0)]
        n == Cardinality(FieldNames)
        ord == CHOOSE s \in [1..n -> FieldNames] : \A i, j \in 1..n : i # j => s[i] # s[j]
    IN /\ heap = [i \in 1..2 * n |-> Val("P", "N", 0)]                 \* ids 1..n caller's arrays, n+1..2n the copies
       /\ field = [f \in FieldNames |-> IF Pinned /\ f \in Dev_ConstructorKeepsCallerArray
                                          THEN CHOOSE i \in 1..n : ord[i] = f            \* the caller's own object
                                          ELSE n + (CHOOSE i \in 1..n : ord[i] = f)]
       /\ owned = {<<i, Val("P", "N", 0)>> : i \in 1..n}
       /\ handed = {} /\ result = [ids |-> {}, centred |-> FALSE] /\ nops = 0
       /\ ret = [op |-> "construct", rebinds |-> {}, alias |-> FALSE]

Facts(op, oldfield) == [op |-> op,
                        rebinds |-> {f \in FieldNames : field'[f] # oldfield[f]},          \* fields that point to a new object
                        alias |-> (result'.ids \cap {field'[f] : f \in FieldNames} # {})]   \* return value shares an internal array
Log == EmitOn => PrintT(ToJson([k |-> "heapedge", kind |-> Kind,
                                pre |-> [nhanded |-> Cardinality(handed)],
                                ret |-> ret',
                                handed_intact |-> \A h \in handed' : heap'[h[1]] = h[2],
                                owned_intact |-> \A o \in owned' : heap'[o[1]] = o[2],
                                no_ctor_alias |-> {field'[f] : f \in FieldNames} \cap {o[1] : o \in owned'} = {},
                                centred |-> result'.centred]))

Step == nops < MaxOps /\ nops' = nops + 1

(* ---- getters hand out references ------------------------------------------------------------- *)
Get(f) == /\ Step /\ f \in FieldNames
          /\ handed' = handed \cup {<<field[f], heap[field[f]]>>}
          /\ result' = [ids |-> {field[f]}, centred |-> FALSE]
          /\ UNCHANGED <<heap, field, owned>>
          /\ ret' = Facts("get_" \o f, field) /\ Log

(* ---- pure queries (no statement touches the object) -------------------------------------------- *)
PureQuery == /\ Step /\ result' = [ids |-> {}, centred |-> FALSE]
             /\ UNCHANGED <<heap, field, handed, owned>>
             /\ ret' = Facts("pure_query", field) /\ Log

\* pinned snapshot: "self.center = 0" translated the live array in place, then a copy was bound
Dev_InertiaTensorInPlace ==
    LET old == field["vertices"]
        h1 == [heap EXCEPT ![old] = Val("O", "N", @.ver)]
        h2 == Alloc(h1, Val("P", "N", heap[old].ver))
    IN [heap |-> h2, field |-> [field EXCEPT !["vertices"] = 1 + Cardinality(DOMAIN h1)]]

(* ---- Polygon.inertia_tensor: works on temporaries, restores the original objects ---------------- *)
InertiaTensor ==
    /\ Step /\ Kind = "polygon"
    /\ IF Pinned THEN heap' = Dev_InertiaTensorInPlace.heap /\ field' = Dev_InertiaTensorInPlace.field
       ELSE /\ heap' = Alloc(heap, Val("O", "Z", heap[field["vertices"]].ver))    \* (v - c).dot(mat.T): new array, left as garbage
            /\ field' = field                                                    \* finally: original objects back
    /\ result' = [ids |-> {}, centred |-> FALSE]
    /\ UNCHANGED <<handed, owned>>
    /\ ret' = Facts("inertia_tensor", field) /\ Log
\* pinned snapshot: the returned value referenced the live array, which was moved back before the caller saw it
Dev_ToHoomdReturnsLiveArray == [ids |-> {field[MainField]}, centred |-> TRUE]

(* ---- to_hoomd: centre the shape, COPY what is returned, move it back ------------------------------ *)
ToHoomd ==
    /\ Step
    /\ IF Kind = "curved"
       THEN /\ heap' = Alloc(heap, Val("O", "N", heap[field["centroid"]].ver))    \* _centroid rebinds to zeros ...
            /\ field' = field                                                     \* ... and back to the old object
            /\ result' = [ids |-> {1 + Cardinality(DOMAIN heap)}, centred |-> TRUE]
       ELSE /\ heap' = Alloc(heap, Val("O", "N", heap[field["vertices"]].ver))    \* returned vertices: a centred copy
            /\ field' = field
            /\ result' = IF Pinned THEN Dev_ToHoomdReturnsLiveArray ELSE [ids |-> {1 + Cardinality(DOMAIN heap)}, centred |-> TRUE]
    /\ UNCHANGED <<handed, owned>>
    /\ ret' = Facts("to_hoomd", field) /\ Log
(* ---- mutators: in-place on the live arrays; the caller re-reads what it holds ---------------------- *)
Bump(c) == [c EXCEPT !.ver = @ + 1]
Mutate(op, fs) ==         \* in-place change of the arrays behind the fields fs
    /\ Step /\ nops < MaxOps - 1
    /\ heap' = [i \in DOMAIN heap |-> IF i \in {field[f] : f \in fs} THEN Bump(heap[i]) ELSE heap[i]]
    /\ field' = field
    /\ handed' = {<<h[1], heap'[h[1]]>> : h \in handed}
    /\ result' = [ids |-> {}, centred |-> FALSE]
    /\ UNCHANGED owned
    /\ ret' = Facts(op, field) /\ Log
\* obj.centroid = array: the argument is read, not stored (curved shapes store a COPY)
SetCentroid ==
    /\ Step
    /\ LET arg == NewId IN
       IF Kind = "curved"
       THEN LET h1 == Alloc(heap, Val("P", "N", 0))                 \* the caller's array
                h2 == h1 @@ ((arg + 1) :> Val("P", "N", 0))         \* np.array(value): a copy
            IN /\ heap' = h2 /\ field' = [field EXCEPT !["centroid"] = arg + 1]
               /\ owned' = owned \cup {<<arg, Val("P", "N", 0)>>}
               /\ handed' = handed
       ELSE /\ heap' = [i \in DOMAIN Alloc(heap, Val("P", "N", 0)) |->
                          IF i = field["vertices"] \/ (Kind = "polyhedron" /\ i = field["equations"]) THEN Bump(heap[i])
                          ELSE Alloc(heap, Val("P", "N", 0))[i]]
            /\ field' = field
            /\ owned' = owned \cup {<<arg, Val("P", "N", 0)>>}
            /\ handed' = {<<h[1], heap'[h[1]]>> : h \in handed}
    /\ result' = [ids |-> {}, centred |-> FALSE]
    /\ ret' = Facts("set_centroid", field) /\ Log
Rescale == Kind # "curved" /\ Mutate("rescale", IF Kind = "polyhedron" THEN {"vertices", "equations"} ELSE {"vertices"})
SortFaces == Kind = "polyhedron" /\ Mutate("sort_faces", {"faces", "equations"})
\* diagonalize_inertia binds NEW vertex and equation arrays
Diagonalize ==
    /\ Step /\ Kind = "polyhedron"
    /\ LET h1 == Alloc(heap, Bump(heap[field["vertices"]]))
           h2 == h1 @@ ((1 + Cardinality(DOMAIN h1)) :> Bump(heap[field["equations"]]))
       IN /\ heap' = h2
          /\ field' = [field EXCEPT !["vertices"] = 1 + Cardinality(DOMAIN heap), !["equations"] = 2 + Cardinality(DOMAIN heap)]
    /\ handed' = handed        \* arrays handed out earlier keep describing the old orientation: they are not touched
    /\ result' = [ids |-> {}, centred |-> FALSE]
    /\ UNCHANGED owned
    /\ ret' = Facts("diagonalize_inertia", field) /\ Log

IsQuery(op) == op \in {"pure_query", "inertia_tensor", "to_hoomd"} \/ (Len(op) > 4 /\ SubSeq(op, 1, 4) = "get_")

Next == \/ \E f \in FieldNames : Get(f)
        \/ PureQuery \/ InertiaTensor \/ ToHoomd
        \/ SetCentroid \/ Rescale \/ SortFaces \/ Diagonalize
Spec == Init /\ [][Next]_vars

(* ---- the properties ---------------------------------------------------------------------------------- *)
CtorNoAlias == {field[f] : f \in FieldNames} \cap {o[1] : o \in owned} = {}                  \* C15
OwnedIntact == \A o \in owned : heap[o[1]] = o[2]                                           \* C15 / C16
HandedIntact == \A h \in handed : heap[h[1]] = h[2]                                         \* C16 (handed is refreshed by mutators)
QueryKeepsObjects == [][IsQuery(ret'.op) => field' = field /\ \A i \in DOMAIN heap : heap'[i] = heap[i]]_vars   \* C16
HoomdCentred == ret.op = "to_hoomd" =>                                                      \* C19
                   /\ result.centred
                   /\ \A i \in result.ids : heap[i].pos = "O"
                   /\ result.ids \cap {field[f] : f \in FieldNames} = {}
ViewH == <<[i \in DOMAIN heap |-> heap[i]], field, handed, owned, result, nops>>
=============================================================================
