------------------------------- MODULE Curved -------------------------------
(***************************************************************************)
(* Layer D for Circle, Ellipse, Sphere, Ellipsoid: every observable as an  *)
(* exact symbolic TERM (DESIGN 3.2) in the semi-axes and the centre, i.e.  *)
(* the defining integral in closed form in Q[pi], or a rigorous enclosure  *)
(* (Gauss-Kummer series with explicit tail for the ellipse perimeter;      *)
(* spheroid closed forms / Klamkin-type bounds for the ellipsoid area).    *)
(* TLC only builds the term structure and decides orderings; the harness   *)
(* evaluates terms in exact Fraction arithmetic (vh/terms.py).             *)
(*                                                                         *)
(* A semi-axis is a record [n, d, e]: the number (n/d) * (1 + 10^-e) for   *)
(* e > 0 (a "near tie"), n/d for e = 0.  The whole configuration is        *)
(* multiplied by the symbolic scale 10^sc (kept out of TLC's integers).    *)
(***************************************************************************)
EXTENDS Integers, Sequences, FiniteSets, Json, TLC

CONSTANTS Bases,     \* set of <<n, d>> base values for semi-axes
          Eps,       \* set of near-tie exponents e (0 = exact)
          Centres,   \* set of centres, each <<<<n,d>>,<<n,d>>,<<n,d>>>>
          Scales,    \* set of scale exponents sc
          CentresE, ScalesE, BasesE, EpsE,  \* the same for ellipsoids (three axes multiply the state space)
          SeriesN,   \* number of series terms for the ellipse perimeter
          Classes    \* the classes to visit (a subset of Circle, Ellipse, Sphere, Ellipsoid)

VARIABLES cls, ax, ctr, sc
vars == <<cls, ax, ctr, sc>>

Axis(b, e) == [n |-> b[1], d |-> b[2], e |-> e]

(* ---- terms ---------------------------------------------------------------- *)
Qt(n, d) == [q |-> <<n, d>>]
Mul(s) == [mul |-> s]
Sum(s) == [sum |-> s]
Pow(x, k) == [pow |-> k, x |-> x]
Div(x, y) == [div |-> <<x, y>>]
Pi(k, x) == [pi |-> k, x |-> x]
Sqrt(x) == [sqrt |-> x]
Neg(x) == Mul(<<Qt(-1, 1), x>>)
S10 == Pow(Qt(10, 1), sc)                                        \* the symbolic scale 10^sc
AxT(a) == IF a.e = 0 THEN Mul(<<Qt(a.n, a.d), S10>>)
          ELSE Mul(<<Qt(a.n, a.d), Sum(<<Qt(1, 1), Pow(Qt(10, 1), -a.e)>>), S10>>)
CtrT(k) == Mul(<<Qt(ctr[k][1], ctr[k][2]), S10>>)
Sq(x) == Pow(x, 2)

\* ordering of semi-axes decided exactly:  a < b
AxLt(a, b) == \/ a.n * b.d < b.n * a.d
              \/ (a.n * b.d = b.n * a.d /\ ((a.e = 0 /\ b.e > 0) \/ (a.e > 0 /\ b.e > 0 /\ a.e > b.e)))
AxEq(a, b) == a.n * b.d = b.n * a.d /\ a.e = b.e
AxMin(S) == CHOOSE a \in S : \A b \in S : ~AxLt(b, a)
AxMax(S) == CHOOSE a \in S : \A b \in S : ~AxLt(a, b)

(* ---- state machine over parameters ------------------------------------------ *)
NAx(c) == CASE c = "Circle" -> 1 [] c = "Sphere" -> 1 [] c = "Ellipse" -> 2 [] c = "Ellipsoid" -> 3
Init == /\ cls \in Classes
        /\ ax \in [1..NAx(cls) -> {Axis(b, e) : b \in (IF cls = "Ellipsoid" THEN BasesE ELSE Bases),
                                                 e \in (IF cls = "Ellipsoid" THEN EpsE ELSE Eps)}]
        /\ ctr \in (IF cls = "Ellipsoid" THEN CentresE ELSE Centres)
        /\ sc \in (IF cls = "Ellipsoid" THEN ScalesE ELSE Scales)
\* relabelling the axes and rescaling are the transformations whose laws the harness checks on the code
PermuteAxes == /\ NAx(cls) >= 2
               /\ \E p \in [1..NAx(cls) -> 1..NAx(cls)] :
                    /\ \A i, j \in 1..NAx(cls) : i # j => p[i] # p[j]
                    /\ ax' = [i \in 1..NAx(cls) |-> ax[p[i]]]
               /\ UNCHANGED <<cls, ctr, sc>>
Rescale == \E s \in (IF cls = "Ellipsoid" THEN ScalesE ELSE Scales) : sc' = s /\ UNCHANGED <<cls, ax, ctr>>
Next == PermuteAxes \/ Rescale
Spec == Init /\ [][Next]_vars

(* ---- Layer D ------------------------------------------------------------------- *)
\* terms refer to the parameters by name; the record's env binds the names (keeps the emitted terms small)
Ref(name) == [ref |-> name]
A1 == Ref("a1")
A2 == Ref("a2")
A3 == Ref("a3")
Xc == Ref("xc")
Yc == Ref("yc")
Zc == Ref("zc")

AxRef(a) == Ref(CASE a = ax[1] -> "a1" [] NAx(cls) >= 2 /\ a = ax[2] -> "a2" [] OTHER -> "a3")
Area2D == IF cls = "Circle" THEN Pi(1, Sq(A1)) ELSE Pi(1, Mul(<<A1, A2>>))
\* second moments of an ellipse with x-semi-axis a, y-semi-axis b about the x and y axes through the origin
\*   I_x = int y^2 = pi a b^3 / 4 + A y_c^2 ;  I_y = int x^2 = pi a^3 b / 4 + A x_c^2 ;  I_xy = A x_c y_c
SemiX == A1
SemiY == IF cls = "Circle" THEN A1 ELSE A2
PlanarIx == Sum(<<Pi(1, Mul(<<Qt(1, 4), SemiX, Pow(SemiY, 3)>>)), Mul(<<Area2D, Sq(Yc)>>)>>)
PlanarIy == Sum(<<Pi(1, Mul(<<Qt(1, 4), Pow(SemiX, 3), SemiY>>)), Mul(<<Area2D, Sq(Xc)>>)>>)
PlanarIxy == Mul(<<Area2D, Xc, Yc>>)
\* Named deviation (known finding C10/planar-parallel-axis-swapped): the implementation adds A x_c^2 to I_x and
\* A y_c^2 to I_y.  The repository's own tests assert this convention, so it cannot be repaired without editing them.
Dev_PlanarParallelAxisSwapped ==
    << Sum(<<Pi(1, Mul(<<Qt(1, 4), SemiX, Pow(SemiY, 3)>>)), Mul(<<Area2D, Sq(Xc)>>)>>),
       Sum(<<Pi(1, Mul(<<Qt(1, 4), Pow(SemiX, 3), SemiY>>)), Mul(<<Area2D, Sq(Yc)>>)>>),
       PlanarIxy >>

\* e^2 = 1 - (min/max)^2
Ecc2 == IF cls = "Circle" THEN Qt(0, 1)
        ELSE LET lo == AxMin({ax[1], ax[2]})  hi == AxMax({ax[1], ax[2]}) IN
             Sum(<<Qt(1, 1), Neg(Sq(Div(AxRef(lo), AxRef(hi))))>>)

\* Ellipse perimeter: pi (a+b) sum_n c_n h^n, c_n = binom(1/2, n)^2, h = ((a-b)/(a+b))^2; all terms positive,
\* tail after N terms <= c_N h^N / (1 - h).  c_n = c_{n-1} * ((2n-3)/(2n))^2, c_0 = 1, c_1 = 1/4.
\* Written in Horner form so that the emitted term has size O(N):
\*   sum_{n<N} c_n h^n = 1 + r_1 h (1 + r_2 h (1 + ... (1 + r_{N-1} h))),   r_n = c_n / c_{n-1}
Ratio(n) == IF n = 1 THEN Qt(1, 4) ELSE Sq(Qt(2 * n - 3, 2 * n))
HhDef == Sq(Div(Sum(<<A1, Neg(A2)>>), Sum(<<A1, A2>>)))
Hh == Ref("h")
RECURSIVE Horner(_)
Horner(k) == IF k = SeriesN - 1 THEN Sum(<<Qt(1, 1), Mul(<<Ratio(k), Hh>>)>>)
             ELSE Sum(<<Qt(1, 1), Mul(<<Ratio(k), Hh, Horner(k + 1)>>)>>)
CN == Mul([n \in 1..SeriesN |-> Ratio(n)])                      \* c_N
SeriesTail == Div(Mul(<<CN, Pow(Hh, SeriesN)>>), Sum(<<Qt(1, 1), Neg(Hh)>>))
PerimLo == Mul(<<Pi(1, Sum(<<A1, A2>>)), Horner(1)>>)
PerimHi == Mul(<<Pi(1, Sum(<<A1, A2>>)), Sum(<<Horner(1), SeriesTail>>)>>)
\* A second enclosure that stays tight for needles (h -> 1, where the series above converges slowly): Gauss's
\* arithmetic-geometric mean.  a_0 = max(a, b), b_0 = min(a, b), a_{n+1} = (a_n + b_n)/2, b_{n+1} = sqrt(a_n b_n),
\* c_{n+1} = (a_n - b_n)/2 = c_n^2 / (4 a_{n+1});   b_n <= M(a, b) <= a_n;
\*   P = 2 pi (a_0^2 - S) / M,   S = (a_0^2 - b_0^2)/2 + sum_{n>=1} 2^(n-1) c_n^2,   and the tail after N terms is at most
\*   2^(N+1) c_(N+1)^2 once c_(N+1) <= b_N (each further term is at least eight times smaller).
\* The sequences are bound by name in the record's env, so the term stays of size O(N).
AgmN == 12
AgA(n) == Ref("ag_a" \o ToString(n))
AgB(n) == Ref("ag_b" \o ToString(n))
AgC(n) == Ref("ag_c" \o ToString(n))
AgmEnvOrdered ==
    LET lo == AxMin({ax[1], ax[2]})  hi == AxMax({ax[1], ax[2]}) IN
    << <<"ag_a0", AxRef(hi)>>, <<"ag_b0", AxRef(lo)>> >>
    \o [k \in 1..3 * AgmN |->
          LET n == ((k - 1) \div 3) + 1  j == (k - 1) % 3 IN
          IF j = 0 THEN <<"ag_c" \o ToString(n), Mul(<<Qt(1, 2), Sum(<<AgA(n - 1), Neg(AgB(n - 1))>>)>>)>>
          ELSE IF j = 1 THEN <<"ag_a" \o ToString(n), Mul(<<Qt(1, 2), Sum(<<AgA(n - 1), AgB(n - 1)>>)>>)>>
          ELSE <<"ag_b" \o ToString(n), Sqrt(Mul(<<AgA(n - 1), AgB(n - 1)>>))>>]
RECURSIVE Pow2(_)
Pow2(n) == IF n = 0 THEN 1 ELSE 2 * Pow2(n - 1)
AgmS == Sum(<<Mul(<<Qt(1, 2), Sum(<<Sq(AgA(0)), Neg(Sq(AgB(0)))>>)>>)>>
            \o [n \in 1..AgmN - 1 |-> Mul(<<Qt(Pow2(n - 1), 1), Sq(AgC(n))>>)])
AgmTail == Mul(<<Qt(Pow2(AgmN), 1), Sq(AgC(AgmN))>>)
PerimLoA == Div(Pi(1, Mul(<<Qt(2, 1), Sum(<<Sq(AgA(0)), Neg(AgmS), Neg(AgmTail)>>)>>)), AgA(AgmN - 1))
PerimHiA == Div(Pi(1, Mul(<<Qt(2, 1), Sum(<<Sq(AgA(0)), Neg(AgmS)>>)>>)), AgB(AgmN - 1))
\* both enclosures are rigorous: the perimeter lies in their intersection (the harness also checks that they intersect)
Perimeter == IF cls = "Circle" THEN Pi(1, Mul(<<Qt(2, 1), A1>>))
             ELSE [encl |-> << [max |-> <<PerimLo, PerimLoA>>], [min |-> <<PerimHi, PerimHiA>>] >>]

\* Form factor of a sphere of radius R at |q| R = x:  F = 4 pi R^3 (sin x - x cos x) / x^3 = 4 pi R^3 sum_k t_k,
\* t_0 = 1/3, t_k / t_(k-1) = -x^2 / (2k (2k + 3)); an alternating series with decreasing terms for x <= 1, so twelve terms
\* leave a remainder below 1e-25.  Emitted for small and moderate rational x, where closed forms in (pi/2) Z say nothing.
XSmall == << <<1, 1000>>, <<1, 100>>, <<3, 100>>, <<49, 1000>>, <<1, 20>>, <<51, 1000>>, <<1, 5>>, <<1, 1>> >>
RECURSIVE FFHorner(_, _)
FFHorner(x, k) == LET r == Mul(<<Qt(-1, 2 * k * (2 * k + 3)), Sq(x)>>) IN
                  IF k = 12 THEN Sum(<<Qt(1, 1), r>>) ELSE Sum(<<Qt(1, 1), Mul(<<r, FFHorner(x, k + 1)>>)>>)
SphereFF == [i \in 1..Len(XSmall) |->
               LET x == Qt(XSmall[i][1], XSmall[i][2]) IN
               [x |-> x, amp |-> Pi(1, Mul(<<Qt(4, 3), Pow(A1, 3), FFHorner(x, 1)>>))]]

Volume == IF cls = "Sphere" THEN Pi(1, Mul(<<Qt(4, 3), Pow(A1, 3)>>))
          ELSE Pi(1, Mul(<<Qt(4, 3), A1, A2, A3>>))
SX == A1
SY == IF cls = "Sphere" THEN A1 ELSE A2
SZ == IF cls = "Sphere" THEN A1 ELSE A3
\* inertia tensor about the origin: V/5 diag(b^2+c^2, a^2+c^2, a^2+b^2) + V (|c|^2 I - c c^T)
Cv == <<Xc, Yc, Zc>>
C2 == Sum(<<Sq(Xc), Sq(Yc), Sq(Zc)>>)
Diag3(k) == CASE k = 1 -> Sum(<<Sq(SY), Sq(SZ)>>) [] k = 2 -> Sum(<<Sq(SX), Sq(SZ)>>) [] k = 3 -> Sum(<<Sq(SX), Sq(SY)>>)
Inertia3 == [i \in 1..3 |-> [j \in 1..3 |->
               IF i = j THEN Sum(<<Mul(<<Volume, Qt(1, 5), Diag3(i)>>), Mul(<<Volume, Sum(<<C2, Neg(Sq(Cv[i]))>>)>>)>>)
               ELSE Neg(Mul(<<Volume, Cv[i], Cv[j]>>))]]

\* Ellipsoid surface area: exact for spheres; otherwise the enclosure
\*   (4 pi / 3)(ab + bc + ca) <= S <= (4 pi / 3)(a^2 + b^2 + c^2)
\* (the harness additionally checks spheroid closed forms, permutation invariance and homogeneity as relations)
AllEqual == cls = "Sphere" \/ (cls = "Ellipsoid" /\ AxEq(ax[1], ax[2]) /\ AxEq(ax[2], ax[3]))
\* Spheroids (exactly two equal semi-axes p = equatorial, r = polar) have closed forms:
\*   oblate  (r < p):  S = 2 pi p^2 + pi (r^2 / e) ln((1+e)/(1-e)),   e^2 = 1 - r^2/p^2
\*   prolate (r > p):  S = 2 pi p^2 (1 + r/(p e) asin e),             e^2 = 1 - p^2/r^2
Ln(x) == [ln |-> x]
Asin(x) == [asin |-> x]
EqPair == IF cls # "Ellipsoid" \/ AllEqual THEN <<>>
          ELSE IF AxEq(ax[1], ax[2]) THEN <<"a1", "a3">> ELSE IF AxEq(ax[1], ax[3]) THEN <<"a1", "a2">>
          ELSE IF AxEq(ax[2], ax[3]) THEN <<"a2", "a1">> ELSE <<>>
AxOf(name) == CASE name = "a1" -> ax[1] [] name = "a2" -> ax[2] [] name = "a3" -> ax[3]
SpheroidSurface ==
    LET p == Ref(EqPair[1])  r == Ref(EqPair[2]) IN
    IF AxLt(AxOf(EqPair[2]), AxOf(EqPair[1]))
    THEN LET e == Sqrt(Sum(<<Qt(1, 1), Neg(Sq(Div(r, p)))>>)) IN
         Sum(<<Pi(1, Mul(<<Qt(2, 1), Sq(p)>>)),
               Pi(1, Mul(<<Div(Sq(r), e), Ln(Div(Sum(<<Qt(1, 1), e>>), Sum(<<Qt(1, 1), Neg(e)>>)))>>))>>)
    ELSE LET e == Sqrt(Sum(<<Qt(1, 1), Neg(Sq(Div(p, r)))>>)) IN
         Pi(1, Mul(<<Qt(2, 1), Sq(p), Sum(<<Qt(1, 1), Mul(<<Div(r, Mul(<<p, e>>)), Asin(e)>>)>>)>>))
Surface == IF cls = "Sphere" THEN Pi(1, Mul(<<Qt(4, 1), Sq(A1)>>))
           ELSE IF AllEqual THEN Pi(1, Mul(<<Qt(4, 1), Sq(A1)>>))
           ELSE IF EqPair # <<>> /\ AxOf(EqPair[1]).e = 0 /\ AxOf(EqPair[2]).e = 0 THEN SpheroidSurface
           ELSE [encl |-> << Pi(1, Mul(<<Qt(4, 3), Sum(<<Mul(<<A1, A2>>), Mul(<<A2, A3>>), Mul(<<A3, A1>>)>>)>>)),
                             Pi(1, Mul(<<Qt(4, 3), Sum(<<Sq(A1), Sq(A2), Sq(A3)>>)>>)) >>]

BallMax == AxRef(AxMax({ax[i] : i \in 1..NAx(cls)}))
BallMin == AxRef(AxMin({ax[i] : i \in 1..NAx(cls)}))

Is2D == cls \in {"Circle", "Ellipse"}
\* membership: the point (px,py,pz) belongs to the shape iff MemberForm <= 1 (2-D shapes: and pz = zc)
Px == Ref("px")
Py == Ref("py")
Pz == Ref("pz")
MemberForm == LET dx == Sum(<<Px, Neg(Xc)>>)  dy == Sum(<<Py, Neg(Yc)>>)  dz == Sum(<<Pz, Neg(Zc)>>) IN
    CASE cls = "Circle"    -> Sum(<<Sq(Div(dx, A1)), Sq(Div(dy, A1))>>)
      [] cls = "Ellipse"   -> Sum(<<Sq(Div(dx, A1)), Sq(Div(dy, A2))>>)
      [] cls = "Sphere"    -> Sum(<<Sq(Div(dx, A1)), Sq(Div(dy, A1)), Sq(Div(dz, A1))>>)
      [] cls = "Ellipsoid" -> Sum(<<Sq(Div(dx, A1)), Sq(Div(dy, A2)), Sq(Div(dz, A3))>>)
\* Named deviation (known finding C06/ellipse-quadrant-box): Ellipse.is_inside reports a point inside iff
\* (px-xc)/a <= 1 and (py-yc)/b <= 1, a quadrant of the bounding box; tests/test_ellipse.py::test_is_inside
\* asserts exactly that, so it cannot be repaired without editing the test.  The list holds the quantities that
\* the deviating implementation compares with 1.
Dev_EllipseQuadrantBox == << Div(Sum(<<Px, Neg(Xc)>>), A1), Div(Sum(<<Py, Neg(Yc)>>), A2) >>
\* radial distance from the centre to the boundary in direction (ux, uy) (2-D shapes): 1 / sqrt(Q(u)) * |u|
Ux == Ref("ux")
Uy == Ref("uy")
RadialDist == LET b == IF cls = "Circle" THEN A1 ELSE A2 IN
    Sqrt(Div(Sum(<<Sq(Ux), Sq(Uy)>>), Sum(<<Sq(Div(Ux, A1)), Sq(Div(Uy, b))>>)))
Record ==
    [ k |-> "curved", cls |-> cls, sc |-> sc,
      env |-> [i \in 1..NAx(cls) |-> <<CASE i = 1 -> "a1" [] i = 2 -> "a2" [] i = 3 -> "a3", AxT(ax[i])>>]
              \o << <<"xc", CtrT(1)>>, <<"yc", CtrT(2)>>, <<"zc", CtrT(3)>> >>
              \o (IF cls = "Ellipse" THEN << <<"h", HhDef>> >> \o AgmEnvOrdered ELSE <<>>),
      axes |-> [i \in 1..NAx(cls) |-> Ref(CASE i = 1 -> "a1" [] i = 2 -> "a2" [] i = 3 -> "a3")],
      axraw |-> ax,
      centre |-> <<Xc, Yc, Zc>>,
      isball |-> (cls \in {"Circle", "Sphere"}) \/ AllEqual \/ (cls = "Ellipse" /\ AxEq(ax[1], ax[2])),
      measure |-> IF Is2D THEN Area2D ELSE Volume,                 \* area / volume
      boundary |-> IF Is2D THEN Perimeter ELSE Surface,            \* perimeter / surface area
      ffsmall |-> IF cls = "Sphere" THEN SphereFF ELSE <<>>,
      perim_series |-> IF cls = "Ellipse" THEN [encl |-> <<PerimLo, PerimHi>>] ELSE Qt(0, 1),
      perim_agm |-> IF cls = "Ellipse" THEN [encl |-> <<PerimLoA, PerimHiA>>] ELSE Qt(0, 1),
      ecc2 |-> IF Is2D THEN Ecc2 ELSE Qt(0, 1),
      planar |-> IF Is2D THEN <<PlanarIx, PlanarIy, PlanarIxy>> ELSE <<>>,
      planar_dev |-> IF Is2D THEN Dev_PlanarParallelAxisSwapped ELSE <<>>,
      inertia |-> IF Is2D THEN <<>> ELSE Inertia3,
      member |-> MemberForm,
      member_dev |-> IF cls = "Ellipse" THEN Dev_EllipseQuadrantBox ELSE <<>>,
      radial |-> IF Is2D THEN RadialDist ELSE Qt(0, 1),
      ballmax |-> BallMax, ballmin |-> BallMin ]

EmitOn == TRUE
Emit == EmitOn => PrintT(ToJson(Record))
ViewP == <<cls, ax, ctr, sc>>
=============================================================================
