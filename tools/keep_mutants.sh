#!/bin/bash
# Confirms each seeded change in a scratch worktree at /repo's HEAD (demo passes unchanged / fails changed; the repository's
# test-suite passes with the change) and stores it under /verif/seeded/<id>/.
H=$(git -C /repo rev-parse HEAD)
W=/tmp/wt/verify
git -C /repo worktree remove --force $W 2>/dev/null
git -C /repo worktree add -q --detach $W $H || exit 2
for arg in "$@"; do
  i=${arg%%=*}; src=/tmp/wt/$i/MUTANT
  case "$arg" in *=*) src=${arg#*=};; esac
  p=$src/patch.diff; [ -f $src/patch_rebased.diff ] && p=$src/patch_rebased.diff
  out=/verif/seeded/$i; mkdir -p $out
  cp $p $out/patch.diff; cp $src/demo.py $out/demo.py; cp $src/meta.json $out/meta_agent.json 2>/dev/null
  ( cd $W && git checkout -q -- . && PYTHONPATH=$W timeout 900 /venv/bin/python $out/demo.py >/dev/null 2>&1 ); d0=$?
  ( cd $W && git apply $out/patch.diff ) || { echo "$i: patch does not apply"; continue; }
  ( cd $W && PYTHONPATH=$W timeout 900 /venv/bin/python $out/demo.py >/dev/null 2>&1 ); d1=$?
  res=$(cd $W && PYTHONPATH=$W timeout 1800 /venv/bin/python -m pytest -q -p no:cacheprovider -n 5 tests 2>&1 | tail -40)
  last=$(echo "$res" | tail -1)
  failed=$(echo "$res" | grep '^FAILED' | sed 's/^FAILED //; s/ - .*//' | tr '\n' ' ')
  rer=""
  if [ -n "$failed" ]; then
    # re-run the failed tests alone (ids may contain spaces: one id per line)
    echo "$res" | grep '^FAILED' | sed 's/^FAILED //; s/ - .*//' > /tmp/wt/failed_ids.txt
    rer=$(cd $W && PYTHONPATH=$W xargs -d '\n' -a /tmp/wt/failed_ids.txt timeout 900 /venv/bin/python -m pytest -q -p no:cacheprovider 2>&1 | tail -1)
  fi
  ( cd $W && git checkout -q -- . )
  echo "$i demo_unchanged=$d0 demo_changed=$d1 pytest: $last | failed: $failed | rerun alone: $rer"
  printf '%s\n' "{\"demo_exit_on_repo_head\": $d0, \"demo_exit_with_change\": $d1, \"pytest_with_change\": \"$last\", \"failed_then_rerun_alone\": \"$failed => $rer\", \"repo_head\": \"$H\"}" > $out/verified.json
done
git -C /repo worktree remove --force $W
