#!/venv/bin/python
"""Writes seeded/<id>/meta.json from the agent's meta, my own confirmation (verified.json) and seeded/results.json."""
import json, os, sys
root = os.path.join(os.path.dirname(os.path.abspath(__file__)), "..", "seeded")
results = json.load(open(os.path.join(root, "results.json")))
for d in sorted(os.listdir(root)):
    p = os.path.join(root, d)
    if not os.path.isdir(p):
        continue
    agent = json.load(open(os.path.join(p, "meta_agent.json")))
    ver = json.load(open(os.path.join(p, "verified.json")))
    res = results.get(d, {})
    meta = {"id": d, "property": agent.get("property", d[:3]), "summary": agent.get("summary"), "needs": agent.get("needs"),
            "files": agent.get("files"), "agent_tests_run": agent.get("tests_run"),
            "confirmed_by_me": {"repo_head": ver.get("repo_head"), "demo_exit_on_repo_head": ver["demo_exit_on_repo_head"],
                                "demo_exit_with_change": ver["demo_exit_with_change"],
                                "repository_test_suite_with_change": ver["pytest_with_change"],
                                "failed_then_rerun_alone": ver.get("failed_then_rerun_alone", "")},
            "checks_run_with_change": res.get("ran", []), "caught_by": res.get("caught_by", []), "note": res.get("note", ""),
            "how_to_run": f"tools/try_mutant.sh /verif/seeded/{d}/patch.diff <ID>   (applies the change to /repo, runs ./check <ID>, undoes it)"}
    json.dump(meta, open(os.path.join(p, "meta.json"), "w"), indent=1)
    print(d, meta["caught_by"])
