#!/bin/bash
# tools/mutant_matrix.sh [id ...]  - runs every stored seeded change (seeded/<id>/patch.diff) against the checks named in
# seeded/results.json, each in its own scratch worktree of /repo's HEAD (VERIF_REPO) with evidence/replays redirected
# (VERIF_OUT), four at a time; /repo itself is never touched.  Writes seeded/matrix.json: id -> {check: exit status}.
cd /verif || exit 2
B=/var/tmp/mutant-matrix; rm -rf $B; mkdir -p $B/out
# the checks run from a snapshot of /verif taken now, so that editing /verif meanwhile does not disturb the run
rsync -a --exclude replays --exclude evidence --exclude .git --exclude __pycache__ /verif/ $B/verif/
ids=("$@"); [ ${#ids[@]} -eq 0 ] && ids=($(ls -d seeded/*/ | xargs -n1 basename))
H=$(git -C /repo rev-parse HEAD)
one() {
  id=$1; W=$B/wt-$id
  git -C /repo worktree add -q --detach $W $H || { echo "$id worktree failed"; return; }
  pf=/verif/seeded/$id/patch.diff; [ -f /verif/seeded/$id/patch_rebased.diff ] && pf=/verif/seeded/$id/patch_rebased.diff
  if ! ( cd $W && git apply $pf ); then echo "$id: patch does not apply" > $B/out/$id.txt; git -C /repo worktree remove --force $W; return; fi
  checks=$(/venv/bin/python -c "import json,sys; r=json.load(open('/verif/seeded/results.json')).get('$id',{}); print(' '.join(sorted({x.split()[0] for x in r.get('ran',[])} | {'$id'[:3]})))")
  : > $B/out/$id.txt
  for c in $checks; do
    ( cd $B/verif && VERIF_REPO=$W VERIF_OUT=$B/out/$id ./check $c --tier quick > $B/out/$id.$c.log 2>&1 ); rc=$?
    echo "$c $rc $(grep -c '^VIOLATION' $B/out/$id.$c.log)" >> $B/out/$id.txt
  done
  git -C /repo worktree remove --force $W
  echo "$id: $(tr '\n' ';' < $B/out/$id.txt)"
}
export -f one; export B H
printf '%s\n' "${ids[@]}" | xargs -P 4 -I{} bash -c 'one {}'
git -C /repo worktree prune
/venv/bin/python - <<'P'
import json, os, glob
B = "/var/tmp/mutant-matrix/out"
m = {}
try:
    m = json.load(open("/verif/seeded/matrix.json"))
except Exception:
    pass
for f in sorted(glob.glob(B + "/*.txt")):
    i = os.path.basename(f)[:-4]
    row = {}
    for line in open(f):
        parts = line.split()
        if len(parts) == 3:
            row[parts[0]] = {"exit": int(parts[1]), "violation_lines": int(parts[2])}
    if row:
        m[i] = row
json.dump(m, open("/verif/seeded/matrix.json", "w"), indent=1, sort_keys=True)
missed = [i for i, row in m.items() if not any(v["exit"] == 1 and v["violation_lines"] for v in row.values())]
print("not caught:", missed)
P
rm -rf $B
