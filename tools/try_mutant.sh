#!/bin/bash
# tools/try_mutant.sh <patch.diff> <PID> [tier]  - apply a seeded change to /repo, run one check, undo.
patch="$1"; pid="$2"; tier="${3:-quick}"
cd /repo || exit 2
if ! git diff --quiet -- coxeter; then echo "/repo has uncommitted changes"; exit 2; fi
if ! git apply "$patch" 2>/dev/null; then
  if ! patch -p1 --fuzz=3 -s < "$patch"; then echo "patch does not apply"; git reset -q --hard HEAD; git clean -fdq -- coxeter; exit 2; fi
fi
cd /verif && ./check "$pid" --tier "$tier" 2>&1 | grep -E "VIOLATION|KNOWN|MACHINERY|^$pid" | head -8
rc=${PIPESTATUS[0]}
git -C /repo reset -q --hard HEAD; git -C /repo clean -fdq -- coxeter
exit $rc
