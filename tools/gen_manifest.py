#!/venv/bin/python
"""Regenerate /verif/MANIFEST.json from vh/registry.py and validate it against the schema."""
import json
import os
import sys

VERIF = os.path.dirname(os.path.dirname(os.path.abspath(__file__)))
sys.path.insert(0, VERIF)
from vh.registry import REG  # noqa: E402

BASE = json.load(open("/root/.vp/BASELINE.json")) if os.path.exists("/root/.vp/BASELINE.json") else {}
baseline_cmd = ("cd /repo && /venv/bin/python -m pytest -ra -q -p no:cacheprovider --timeout=900 "
                "--continue-on-collection-errors")
checks, na = [], []
for pid in sorted(REG):
    r = REG[pid]
    if not r["claimed"]:
        na.append({"property_id": pid, "reason": r["reason"]})
        continue
    checks.append({
        "property_id": pid,
        "quick_cmd": f"./check {pid} --tier quick",
        "thorough_cmd": f"./check {pid} --tier thorough",
        "evidence_file": f"evidence/{pid}.json",
        "replay_cmd_template": f"./check {pid} --replay {{path}}",
        "engine": "tlc+vh",
        "level_claimed": {"category": "model_checking", "text": r["text"], "design_ref": r["design_ref"]},
        "level_note": r["note"],
        "technique": r["technique"],
    })
man = {
    "version": 1,
    "setup_cmd": "./setup.sh",
    "hooks": {
        "guard": "COXETER_VERIF",
        "enable": "no source hooks: the harness observes public and private state from outside (DESIGN.md 4.0); checks import coxeter from $VERIF_REPO (default /repo) in a fresh /venv/bin/python process",
        "baseline_off_cmd": baseline_cmd,
        "source_commits": [],
        "add_only": True,
    },
    "engines": [{
        "name": "tlc+vh", "path": "check",
        "serves_properties": [c["property_id"] for c in checks],
        "kind_free_text": "explicit TLA+ specification (spec/*.tla) model-checked with TLC; TLC-emitted exact behaviours replayed into coxeter and coxeter-recorded traces validated by TLC trace specifications (vh/)",
    }],
    "checks": checks,
    "not_applicable": na,
    "notes": "All checks: exit 0 = held, 1 = VIOLATION line, 2 = machinery failure. Known findings in known_findings.json.",
}
out = os.path.join(VERIF, "MANIFEST.json")
json.dump(man, open(out, "w"), indent=1)
try:
    import jsonschema
    jsonschema.validate(man, json.load(open("/root/.vp/MANIFEST.schema.json")))
    print("MANIFEST.json valid;", len(checks), "claimed,", len(na), "not applicable")
except ImportError:
    print("MANIFEST.json written (jsonschema not importable here)")
