#!/bin/bash
# tools/run_on_wt.sh <tree> <check> [<check> ...] - runs quick checks against a scratch tree (VERIF_REPO) with evidence and
# replays redirected (VERIF_OUT); /repo and /verif/evidence are not touched.  Prints one line per check.
T=$1; shift
O=/var/tmp/run-on-wt/$(basename $T); mkdir -p $O
for c in "$@"; do
  s=$(date +%s)
  ( cd /verif && VERIF_REPO=$T VERIF_OUT=$O/out ./check $c --tier quick > $O/$c.log 2>&1 ); rc=$?
  echo "$(basename $T) $c rc=$rc violations=$(grep -c '^VIOLATION' $O/$c.log) $(( $(date +%s)-s ))s"
done
