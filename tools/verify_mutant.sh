#!/bin/bash
# tools/verify_mutant.sh <PID>  - confirm a seeded change in /tmp/wt/<PID>: demo passes on /repo HEAD, fails on
# the changed worktree, the repository test-suite passes with the change; then store it in /verif/seeded/<PID>/.
pid="$1"; wt=/tmp/wt/$pid; out=/verif/seeded/$pid
[ -f "$wt/MUTANT/patch.diff" ] || { echo "$pid: no patch"; exit 2; }
mkdir -p "$out"
cp "$wt/MUTANT/patch.diff" "$wt/MUTANT/demo.py" "$wt/MUTANT/meta.json" "$out/" 2>/dev/null
cd "$wt"
( cd /repo && PYTHONPATH=/repo timeout 900 /venv/bin/python "$out/demo.py" >/dev/null 2>&1 ); d0=$?
( cd "$wt" && PYTHONPATH="$wt" timeout 900 /venv/bin/python "$out/demo.py" >/dev/null 2>&1 ); d1=$?
res=$(cd "$wt" && PYTHONPATH="$wt" timeout 1800 /venv/bin/python -m pytest -q -p no:cacheprovider -n 8 tests 2>&1 | tail -1)
fails=$(cd "$wt" && echo "$res" | grep -o "[0-9]* failed" | head -1)
if [ -n "$fails" ]; then
  # re-run the failing tests alone to separate load flakes from real failures
  res2=$(cd "$wt" && PYTHONPATH="$wt" timeout 1800 /venv/bin/python -m pytest -q -p no:cacheprovider --lf tests 2>&1 | tail -1)
fi
/venv/bin/python - "$out/meta.json" "$d0" "$d1" "$res" "$res2" <<'PY'
import json,sys
p,d0,d1,res,res2=sys.argv[1:6]
try: m=json.load(open(p))
except Exception: m={}
m["verified_by_main"]={"demo_exit_on_repo_head":int(d0),"demo_exit_with_change":int(d1),"pytest_with_change":res,"pytest_rerun_of_failures":res2}
json.dump(m,open(p,"w"),indent=1)
PY
echo "$pid demo_repo=$d0 demo_changed=$d1 pytest: $res | rerun: $res2"
