#!/bin/bash
# Offline setup: verifies the tools are present, parses every TLA+ module, byte-compiles the harness.
set -e
cd "$(dirname "$0")"
command -v java >/dev/null || { echo "java missing"; exit 1; }
test -f /opt/veriftools/tla/tla2tools.jar || { echo "tla2tools.jar missing"; exit 1; }
test -x /venv/bin/python || { echo "/venv/bin/python missing"; exit 1; }
/venv/bin/python -m compileall -q vh tools >/dev/null
fail=0
for f in spec/*.tla; do
  ( cd spec && java -cp /opt/veriftools/tla/tla2tools.jar:/opt/veriftools/tla/CommunityModules-deps.jar tla2sany.SANY "$(basename "$f")" >/tmp/sany.$$ 2>&1 ) || true
  if grep -q -E "Parse Error|Semantic errors|Fatal errors|Could not" /tmp/sany.$$; then echo "SANY failed on $f"; cat /tmp/sany.$$; fail=1; fi
done
rm -f /tmp/sany.$$
mkdir -p evidence replays
exit $fail
