"""C12: form factor amplitudes.  Exact values on the quarter-period lattice for voxel solids (Voxel3.tla), at q = pi m for
lattice polygons (Polygon2.tla), closed form at |q| R in (pi/2) Z for spheres; small-q Taylor enclosure from the exact moments;
relations F(0), F(-q) = conj F(q), density linearity, batch = single, orientation independence, translation phase."""
import cmath
import json
import math
import warnings
from fractions import Fraction as F

from .placement import Placement, fl, palette
from .polygon_driver import h

warnings.filterwarnings("ignore")
TOL = 1e-8


def _placed_q(pl, qbase):
    """q' such that q'.(s R x + t) = qbase.x + q'.t : q' = R qbase / s  (floats)."""
    import numpy as np
    R = np.array(fl(pl.R))
    return (R @ np.asarray(qbase, dtype=float)) / float(pl.s)


def eval_voxel(case):
    import numpy as np
    import coxeter
    rec = case["rec"]
    pl = Placement.from_json(case["pl"])
    out = []
    tags = ["cells%d" % rec["vol"]] + pl.tags()

    def bad(obs, msg, extra=()):
        out.append(({"cls": "Polyhedron", "obs": obs, "tags": tags + list(extra), "msg": msg}, {"case": case}))

    verts = np.array(fl(pl.points(rec["v"])), dtype=float)
    try:
        P = coxeter.shapes.Polyhedron(verts, [np.array(f) for f in rec["faces"]], faces_are_convex=True)
    except Exception as e:
        bad("construct", str(e))
        return out, {}
    s = float(pl.s)
    t = np.array(fl(pl.t))
    V = s ** 3 * rec["vol"]
    qs, want, kinds = [], [], []
    for w in rec["ff"]:
        m = w["m"]
        qb = [math.pi / 2 * x for x in m]
        exact = complex(w["g"][0], w["g"][1]) * (2.0 ** w["nz"]) / (math.pi ** w["nz"] * w["mprod"])
        qp = _placed_q(pl, qb)
        qs.append(qp)
        want.append(s ** 3 * exact * cmath.exp(-1j * float(np.dot(qp, t))))
        kinds.append("zero_q" if not any(m) else "axis_q" if sum(1 for x in m if x) == 1 else
                     "face_diagonal_q" if sum(1 for x in m if x) == 2 else "generic_q")
    qs = np.array(qs)
    want = np.array(want)
    snap = qs.copy()
    try:
        got = np.asarray(P.compute_form_factor_amplitude(qs))
        if not np.array_equal(snap, qs):
            bad("compute_form_factor_amplitude_args", "the q array was modified")
        if got.shape != want.shape or not np.all(np.isfinite(got)) or np.max(np.abs(got - want)) > TOL * V:
            k = int(np.argmax(np.abs(got - want))) if got.shape == want.shape else 0
            bad("compute_form_factor_amplitude", f"q = (pi/2) {rec['ff'][k]['m']} (placed {qs[k].tolist()}): returned {got[k] if got.shape == want.shape else got.shape}, "
                f"exact {want[k]}", [kinds[k]])
        # single-vector calls, conjugate symmetry, density
        for k in (0, len(qs) // 2, len(qs) - 1):
            g1 = np.asarray(P.compute_form_factor_amplitude(qs[k:k + 1]))
            if g1.shape != (1,) or abs(g1[0] - want[k]) > TOL * V:
                bad("compute_form_factor_amplitude_single", f"(1,3) call at q = (pi/2) {rec['ff'][k]['m']} gave {g1.tolist()}, exact {want[k]}", [kinds[k]])
        gm = np.asarray(P.compute_form_factor_amplitude(-qs))
        if np.max(np.abs(gm - np.conj(got))) > TOL * V:
            bad("conjugate_symmetry", "F(-q) differs from conj F(q)")
        g2 = np.asarray(P.compute_form_factor_amplitude(qs, density=2.5))
        if np.max(np.abs(g2 - 2.5 * got)) > TOL * V:
            bad("density", "F is not linear in the density")
        # the transform of the shape as it is NOW: the volume setter of Polyhedron doubles the coordinates (it scales about
        # the origin, as ShapeMachine.tla records), so F'(q/2) = 8 F(q) - same exact record, no new arithmetic
        P.volume = 8 * V
        g3 = np.asarray(P.compute_form_factor_amplitude(qs / 2))
        want3 = 8 * want
        if g3.shape != want3.shape or not np.all(np.isfinite(g3)) or np.max(np.abs(g3 - want3)) > TOL * 8 * V:
            k = int(np.argmax(np.abs(g3 - want3))) if g3.shape == want3.shape else 0
            bad("compute_form_factor_amplitude", f"after the volume setter doubled the size: q = (pi/4) {rec['ff'][k]['m']} returned "
                f"{g3[k] if g3.shape == want3.shape else g3.shape}, exact {want3[k]}", ["after_resize", kinds[k]])
    except Exception as e:
        bad("compute_form_factor_amplitude", f"raised {type(e).__name__}: {e}", ["raised"])
    return out, {}


def eval_small_q(case):
    """F(q) = V - i q.(V c) - q^T M2 q / 2 + R3, |R3| <= |q|^3 int |r|^3 / 6, with exact V, c, M2 (convex or voxel record)."""
    import numpy as np
    import coxeter
    rec = case["rec"]
    pl = Placement.from_json(case["pl"])
    out = []
    if "vol6" in rec:
        V0, c0 = F(rec["vol6"], 6), [F(x, 4 * rec["vol6"]) for x in rec["cen24"]]
        P0 = [[F(x, 120) for x in row] for row in rec["mom120"]]
        cls = "ConvexPolyhedron"
    else:
        V0, c0 = F(rec["vol"]), [F(x, 2 * rec["vol"]) for x in rec["cen2"]]
        P0 = [[F(x, 12) for x in row] for row in rec["mom12"]]
        cls = "Polyhedron"
    tags = [cls] + pl.tags()
    verts = np.array(fl(pl.points(rec["v"])), dtype=float)
    try:
        P = coxeter.shapes.ConvexPolyhedron(verts) if cls == "ConvexPolyhedron" else \
            coxeter.shapes.Polyhedron(verts, [np.array(f) for f in rec["faces"]], faces_are_convex=True)
    except Exception as e:
        return [({"cls": cls, "obs": "construct", "tags": tags, "msg": str(e)}, {"case": case})], {}
    s = float(pl.s)
    t = np.array(fl(pl.t))
    R = np.array(fl(pl.R))
    V = s ** 3 * float(V0)
    c = s * (R @ np.array(fl(c0))) + t
    M2 = s ** 5 * (R @ np.array(fl(P0)) @ R.T) + s ** 4 * (np.outer(R @ np.array(fl(c0)), t) + np.outer(t, R @ np.array(fl(c0)))) * float(V0) \
        + V * np.outer(t, t)
    rmax = float(np.max(np.linalg.norm(verts, axis=1)))
    size = float(np.max(np.linalg.norm(verts - verts.mean(axis=0), axis=1)))
    dirs = [np.array(d, dtype=float) / np.linalg.norm(d) for d in ([1, 0, 0], [0, 0, 1], [1, 1, 0], [1, -2, 2], [3, 1, -5])]
    qs = np.array([d * mag / size for d in dirs for mag in (1e-3, 1e-2)] + [[0.0, 0.0, 0.0]])   # |q| x size in {1e-3, 1e-2, 0}
    try:
        got = np.asarray(P.compute_form_factor_amplitude(qs))
        for q, g in zip(qs, got):
            approx = V - 1j * V * float(np.dot(q, c)) - 0.5 * float(q @ M2 @ q)
            # the edge/face sums of the implementation cancel like 1/(|q| size)^2: measured error 2e-8 V at |q| size = 1e-3,
            # hence the looser numerical allowance in this regime (DESIGN 4.3, calibration)
            bound = np.linalg.norm(q) ** 3 * V * rmax ** 3 / 6 + 1e-6 * V
            if not np.isfinite(g) or abs(g - approx) > bound:
                out.append(({"cls": cls, "obs": "compute_form_factor_amplitude", "tags": tags + ["small_q" if np.any(q) else "zero_q"],
                             "msg": f"q = {q.tolist()}: returned {g}, second-order Taylor value from the exact moments {approx} "
                                    f"(rigorous remainder bound {bound!r})"}, {"case": case}))
                break
    except Exception as e:
        out.append(({"cls": cls, "obs": "compute_form_factor_amplitude", "tags": tags + ["raised"], "msg": f"raised {type(e).__name__}: {e}"},
                    {"case": case}))
    return out, {}


def eval_polygon(case):
    import numpy as np
    import coxeter
    rec = case["rec"]
    pl = Placement.from_json(case["pl"])
    out = []
    nz = case["nz"]
    sg = (1 if rec["ccw"] else -1) * nz
    tags = ["n%d" % len(rec["v"]), "ccw_about_normal" if sg > 0 else "cw_about_normal"] + pl.tags()

    def bad(obs, msg, extra=()):
        out.append(({"cls": "Polygon", "obs": obs, "tags": tags + list(extra), "msg": msg}, {"case": case}))

    v3 = np.array(fl(pl.points([(p[0], p[1], 0) for p in rec["v"]])), dtype=float)
    n = np.array(fl(pl.rot([0, 0, nz])))
    try:
        P = coxeter.shapes.Polygon(v3, normal=n)
    except Exception:
        return out, {"unclear": 1}
    s = float(pl.s)
    t = np.array(fl(pl.t))
    A = s * s * rec["area2"] / 2
    qs, want, ms = [np.zeros(3)], [A + 0j], [[0, 0]]
    for w in rec["ff"]:
        if not w["generic"]:
            continue
        m = w["m"]
        exact = float(sum(F(x["n"], x["d"]) for x in w["pi2F"])) / math.pi ** 2
        qp = _placed_q(pl, [math.pi * m[0], math.pi * m[1], 0.0])
        for extra in (0.0, 0.7 / s):                 # a component along the normal must not matter
            q = qp + extra * n
            qs.append(q)
            want.append(s * s * exact * cmath.exp(-1j * float(np.dot(qp, t))))
            ms.append(m)
    qs = np.array(qs)
    want = np.array(want)
    try:
        got = np.asarray(P.compute_form_factor_amplitude(qs))
        if got.shape != want.shape or not np.all(np.isfinite(got)) or np.max(np.abs(got - want)) > TOL * A:
            k = int(np.argmax(np.abs(got - want))) if got.shape == want.shape else 0
            bad("compute_form_factor_amplitude", f"q = pi {ms[k]}: returned {got[k] if got.shape == want.shape else got.shape}, exact {want[k]}",
                ["zero_q" if k == 0 else "generic_q", "sign_flipped" if got.shape == want.shape and abs(got[k] + want[k]) <= TOL * A else "value"])
        gm = np.asarray(P.compute_form_factor_amplitude(-qs))
        if np.max(np.abs(gm - np.conj(got))) > TOL * A:
            bad("conjugate_symmetry", "F(-q) differs from conj F(q)")
    except Exception as e:
        bad("compute_form_factor_amplitude", f"raised {type(e).__name__}: {e}", ["raised"])
    return out, {}


def eval_sphere(case):
    """Sphere radius R (rational), centre c (rational), |q| R = (pi/2) j along rational unit directions."""
    import numpy as np
    import coxeter
    R = F(case["R"][0], case["R"][1])
    c = [F(x[0], x[1]) for x in case["c"]]
    S = coxeter.shapes.Sphere(float(R), np.array([float(x) for x in c]))
    out = []
    dirs = [(1, 0, 0), (0, 0, -1), (F(3, 5), F(4, 5), 0), (F(2, 3), F(-2, 3), F(1, 3)), (F(-2, 7), F(3, 7), F(6, 7))]
    qs, want = [np.zeros(3)], [4 / 3 * math.pi * float(R) ** 3 + 0j]
    for j in (1, 2, 3, 4, 7, 10, 19):
        x = math.pi / 2 * j
        sn, cs = [0, 1, 0, -1][j % 4], [1, 0, -1, 0][j % 4]
        # F = 4 pi (sin x - x cos x) / q^3,  q = x / R
        amp = 4 * math.pi * (sn - x * cs) / (x / float(R)) ** 3
        for d in dirs:
            q = np.array([float(u) for u in d]) * x / float(R)
            qs.append(q)
            want.append(amp * cmath.exp(-1j * float(np.dot(q, [float(v) for v in c]))))
    qs, want = np.array(qs), np.array(want)
    V = 4 / 3 * math.pi * float(R) ** 3
    try:
        got = np.asarray(S.compute_form_factor_amplitude(qs))
        if got.shape != want.shape or np.max(np.abs(got - want)) > TOL * V:
            k = int(np.argmax(np.abs(got - want))) if got.shape == want.shape else 0
            out.append(({"cls": "Sphere", "obs": "compute_form_factor_amplitude", "tags": ["offcentre" if any(c) else "centred"],
                         "msg": f"q = {qs[k].tolist()}: returned {got[k] if got.shape == want.shape else got.shape}, exact {want[k]}"}, {"case": case}))
        g1 = np.asarray(S.compute_form_factor_amplitude(qs[3]))
        if g1.shape != (1,) or abs(g1[0] - want[3]) > TOL * V:
            out.append(({"cls": "Sphere", "obs": "compute_form_factor_amplitude_single", "tags": [], "msg": "a single (3,) vector is not handled like a batch"}, {"case": case}))
    except Exception as e:
        out.append(({"cls": "Sphere", "obs": "compute_form_factor_amplitude", "tags": ["raised"], "msg": f"raised {type(e).__name__}: {e}"}, {"case": case}))
    return out, {}


def eval_sphere_series(rec):
    """Sphere records of spec/Curved.tla: the amplitude at |q| R = x for small and moderate rational x (alternating series with
    remainder below 1e-25), along rational directions, with the phase of the centre."""
    import numpy as np
    from . import curved_eval
    from .terms import ev
    out = []
    try:
        S, env, ax, c = curved_eval.build(rec)
    except Exception as e:
        return [({"cls": "Sphere", "obs": "construct", "tags": [], "msg": str(e)}, {"case": rec})], {}
    R = float(ax[0])
    V = 4 / 3 * math.pi * R ** 3
    dirs = [(1, 0, 0), (0, 0, -1), (0.6, 0.8, 0), (2 / 3, -2 / 3, 1 / 3)]
    qs, want, xs = [], [], []
    for w in rec["ffsmall"]:
        x = float(ev(w["x"], env))
        amp = float(ev(w["amp"], env))
        for d in dirs:
            q = np.array(d, dtype=float) * x / R
            qs.append(q)
            want.append(amp * cmath.exp(-1j * float(np.dot(q, c))))
            xs.append(x)
    qs, want = np.array(qs), np.array(want)
    tags = curved_eval.curved_tags(rec)
    try:
        got = np.asarray(S.compute_form_factor_amplitude(qs))
        if got.shape != want.shape or not np.all(np.isfinite(got)) or np.max(np.abs(got - want)) > TOL * V:
            k = int(np.argmax(np.abs(got - want))) if got.shape == want.shape else 0
            out.append(({"cls": "Sphere", "obs": "compute_form_factor_amplitude", "tags": tags + ["series_x"],
                         "msg": f"|q| R = {xs[k]!r}: returned {got[k] if got.shape == want.shape else got.shape}, exact {want[k]} "
                                f"(relative error {abs(got[k] - want[k]) / V:.2e} of V)"}, {"case": rec}))
    except Exception as e:
        out.append(({"cls": "Sphere", "obs": "compute_form_factor_amplitude", "tags": tags + ["raised"], "msg": f"raised {type(e).__name__}: {e}"},
                    {"case": rec}))
    return out, {}
