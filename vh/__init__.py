"""vh - verification harness binding the TLA+ specification in /verif/spec to coxeter."""
