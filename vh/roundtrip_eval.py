"""C19: GSD / repr / to_json / to_hoomd representations, bound to spec/Gsd.tla."""
import json
import warnings

from . import machine_eval as me
from . import tlc

warnings.filterwarnings("ignore")
CFG = "SPECIFICATION Spec\nINVARIANT T1_RoundTripAccepted\nINVARIANT Emit\nCHECK_DEADLOCK FALSE\n"

CONVEX_CYCLE = [[3, 4], [5, 4], [6, 6], [3, 7]]
NONCONVEX_CYCLE = [[4, 1], [6, 7], [9, 1], [6, 3]]
CUBE = [[x, y, z] for x in (1, 2) for y in (4, 6) for z in (-3, 0)]


def eval_row(r):
    """One row of the dispatch table -> concrete spec dict -> from_gsd_type_shapes."""
    import coxeter
    row, exp = r["row"], r["expected"]
    t = row["type"]
    spec = {} if t == "missing" else {"type": t}
    if t in ("Sphere", "sphere"):
        spec["diameter"] = 3.0
    elif t == "Ellipsoid":
        spec.update(a=1.5, b=2.5, c=0.5)
    elif t == "Polygon":
        spec["vertices"] = CONVEX_CYCLE if row["convex"] else NONCONVEX_CYCLE
    elif t in ("ConvexPolyhedron", "Cube"):
        spec["vertices"] = CUBE
    elif t == "Mesh":
        hull = coxeter.shapes.ConvexPolyhedron(CUBE)
        spec["vertices"] = CUBE
        spec["indices"] = [[int(i) for i in f] for f in hull.faces]
    if row["rounding"] != "absent" and t in ("Polygon", "ConvexPolyhedron"):
        spec["rounding_radius"] = {"positive": 0.25, "zero": 0.0, "negative": -0.25}[row["rounding"]]
    snap = json.dumps(spec, sort_keys=True)
    try:
        shape = coxeter.from_gsd_type_shapes(spec, dimensions=row["dims"])
        got = type(shape).__name__
    except Exception as e:
        got = type(e).__name__
    out = []
    if t == "missing" and row["rounding"] != "absent":
        return out             # the same row as without the flag
    if got != exp:
        out.append(({"cls": "from_gsd_type_shapes", "obs": "dispatch", "tags": [t, "dims%d" % row["dims"],
                     "rounding_" + row["rounding"], "convex" if row["convex"] else "nonconvex"],
                     "msg": f"spec {spec if len(str(spec)) < 200 else t} with dimensions={row['dims']} gave {got}, table says {exp}"},
                    {"row": r}))
    if json.dumps(spec, sort_keys=True) != snap:
        out.append(({"cls": "from_gsd_type_shapes", "obs": "argument", "tags": [t], "msg": "the spec dict was modified"}, {"row": r}))
    return out


def _same_geometry(a, b, mlen, what):
    """Compare the defining data of two shapes; returns list of differing items."""
    import numpy as np
    bad = []
    for name in ("vertices", "radius", "a", "b", "c", "normal", "centroid", "faces"):
        if name not in what:
            continue
        try:
            x = getattr(a, name)
            y = getattr(b, name)
        except Exception:
            continue
        if name == "faces":
            fx = sorted(me._canon_faces(x))
            fy = sorted(me._canon_faces(y))
            if fx != fy:
                bad.append(name)
            continue
        x = np.asarray(x, dtype=float)
        y = np.asarray(y, dtype=float)
        if x.shape != y.shape or not np.allclose(x, y, rtol=1e-12, atol=1e-12 * mlen):
            bad.append(name)
    return bad


def eval_roundtrip(job):
    """job: record from Gsd.tla (cls, convex, back, dims, keys, loses, hoomd) + base name."""
    import numpy as np
    import coxeter
    from numpy import array, int32, int64  # noqa: F401  (names used by eval(repr))
    rec = job["rec"]
    cls = rec["cls"]
    out = []

    def bad(obs, msg, tags=()):
        out.append(({"cls": cls, "obs": obs, "tags": [job["base"]] + (["radius_zero"] if rec.get("rzero") else []) + list(tags), "msg": msg}, {"job": job}))

    shape = me.build(cls, me.bases(cls)[job["base"]])
    if rec.get("rzero"):
        shape.radius = 0.0
    mlen = float(np.max(np.abs(me.geom(shape)))) * 2 + 1.0
    proj0 = me.project(shape)
    # ---- GSD round trip
    spec = shape.gsd_shape_spec
    if set(spec) != set(rec["keys"]) or spec.get("type") != rec["gsdtype"]:
        bad("gsd_shape_spec", f"keys/type {sorted(spec)} / {spec.get('type')}, specification says {sorted(rec['keys'])} / {rec['gsdtype']}")
    try:
        back = coxeter.from_gsd_type_shapes(spec, dimensions=rec["dims"])
        if type(back).__name__ != rec["back"]:
            bad("gsd_roundtrip", f"came back as {type(back).__name__}, specification says {rec['back']}", ["class"])
        else:
            what = {"vertices", "radius", "a", "b", "c", "faces"}
            if cls in ("Circle", "Sphere"):
                what = {"radius"}
            tilted = "normal" in rec["loses"] and not np.allclose(np.abs(np.asarray(shape.normal)), [0, 0, 1])
            diff = _same_geometry(shape, back, mlen, what)
            if cls == "ConvexPolygon" or (cls == "Polygon" and rec["convex"]) or cls == "ConvexSpheropolygon":
                # the normal is not carried: the cycle may come back reversed; compare as vertex sets
                if "vertices" in diff and sorted(map(tuple, np.round(np.asarray(shape.vertices), 9).tolist())) == \
                        sorted(map(tuple, np.round(np.asarray(back.vertices), 9).tolist())):
                    diff.remove("vertices")
            for d in diff:
                bad("gsd_roundtrip", f"{d} differs after from_gsd_type_shapes(gsd_shape_spec)", [d])
            # hence the same measures (those that do not depend on what GSD loses)
            for name in ("area", "volume", "perimeter", "surface_area"):
                if name in proj0 and not isinstance(proj0[name], tuple):
                    try:
                        v = float(getattr(back, name))
                        if abs(v - float(proj0[name])) > 1e-9 * abs(float(proj0[name])):
                            bad("gsd_roundtrip", f"{name} differs after the GSD round trip", [name])
                    except Exception as e:
                        bad("gsd_roundtrip", f"{name} raised {e} after the GSD round trip", [name])
    except Exception as e:
        bad("gsd_roundtrip", f"from_gsd_type_shapes(gsd_shape_spec) raised {type(e).__name__}: {e}", ["raised"])
    # ---- repr round trip
    try:
        back = eval(repr(shape), {"coxeter": coxeter, "array": array, "int32": int32, "int64": int64, "np": np})
        if type(back).__name__ != cls and not isinstance(shape, type(back)):
            bad("repr_roundtrip", f"eval(repr(shape)) is a {type(back).__name__}", ["class"])
        for d in _same_geometry(shape, back, mlen, {"vertices", "radius", "a", "b", "c", "normal", "centroid", "faces"}):
            bad("repr_roundtrip", f"{d} differs after eval(repr(shape))", [d])
        if str(shape) != repr(shape):
            bad("str", "str(shape) differs from repr(shape)")
    except Exception as e:
        bad("repr_roundtrip", f"eval(repr(shape)) raised {type(e).__name__}: {e}", ["raised"])
    # ---- to_json
    names = [n for n in me.public_properties(shape) if n in proj0 and not isinstance(proj0[n], tuple)][:6]
    for attrs in [[]] + [[n] for n in names] + [names[:2], names]:
        try:
            d = shape.to_json(list(attrs))
            if list(d.keys()) != list(attrs):
                bad("to_json", f"to_json({attrs}) returned keys {list(d)}")
            for k in attrs:
                if not np.allclose(np.asarray(d[k], dtype=float), np.asarray(getattr(shape, k), dtype=float), rtol=1e-12, atol=0):
                    bad("to_json", f"to_json value of {k} differs from the attribute")
        except Exception as e:
            bad("to_json", f"to_json({attrs}) raised {type(e).__name__}: {e}")
    try:
        shape.to_json(["volume_of_nothing"])
        bad("to_json", "unknown attribute accepted")
    except AttributeError:
        pass
    except Exception as e:
        bad("to_json", f"unknown attribute raised {type(e).__name__} instead of AttributeError")
    # ---- to_hoomd: documented keys, everything refers to the shape centred at its centroid
    if rec["hoomd"]:
        try:
            hd = shape.to_hoomd()
        except Exception as e:
            bad("to_hoomd", f"raised {type(e).__name__}: {e}", ["raised"])
            return out
        if set(hd) != set(rec["hoomd"]):
            bad("to_hoomd", f"keys {sorted(hd)}, documented {sorted(rec['hoomd'])}", ["keys"])
        cen = np.asarray(hd.get("centroid", [9, 9, 9]), dtype=float)
        if not np.all(np.abs(cen) <= 1e-9 * mlen):
            bad("to_hoomd", f"reported centroid {cen.tolist()} is not the origin", ["not_centred"])
        # build the centred reference shape independently and compare everything with it
        ref = me.build(cls, me.bases(cls)[job["base"]])
        if rec.get("rzero"):
            ref.radius = 0.0
        core = getattr(ref, "_polyhedron", None) or getattr(ref, "_polygon", None) or ref
        try:
            core.centroid = np.zeros(3)
        except Exception:
            pass
        if "vertices" in hd:
            v = np.asarray(hd["vertices"], dtype=float)
            rv = np.asarray(ref.vertices, dtype=float)[:, :v.shape[1]]
            if v.shape != rv.shape or not np.allclose(v, rv, rtol=0, atol=1e-9 * mlen):
                bad("to_hoomd", "returned vertices are not those of the shape centred at its centroid", ["not_centred"])
        for key, name in (("volume", "volume"), ("area", "area"), ("moment_inertia", "inertia_tensor"),
                          ("sweep_radius", "radius"), ("diameter", "diameter"), ("a", "a"), ("b", "b"), ("c", "c")):
            if key in hd:
                want = 0.0 if (key == "sweep_radius" and not hasattr(ref, "radius")) else getattr(ref, name)
                w = np.asarray(want, dtype=float)
                g = np.asarray(hd[key], dtype=float)
                if g.shape != w.shape or not np.allclose(g, w, rtol=1e-9, atol=1e-9 * max(1.0, float(np.max(np.abs(w))))):
                    bad("to_hoomd", f"{key} does not describe the centred shape", [key])
        diff = me.compare(me.project(shape), proj0, mlen)
        for name, why in diff[:3]:
            bad("to_hoomd", f"to_hoomd changed the shape: {name}: {why}", ["shape_changed"])
    return out


def run(ctx):
    from .pool import _init
    _init()
    res = tlc.run("Gsd", CFG, workers=2, timeout=300)
    ctx.tlc(res, "Gsd dispatch table and round-trip actions")
    if res.violated:
        ctx.violation({"cls": "spec", "obs": res.violated, "tags": ["T1"], "msg": "Gsd.tla inconsistency"}, {"tlc": res.stdout[-2000:]})
    rows = {json.dumps(r, sort_keys=True): r for r in res.records if r.get("k") == "gsdrow"}
    for r in rows.values():
        ctx.case(("row", json.dumps(r["row"], sort_keys=True)), sample={"row": r["row"], "expected": r["expected"]})
        ctx.traces += 1
        for sig, detail in eval_row(r):
            ctx.violation(sig, detail)
    rts = {json.dumps(r, sort_keys=True): r for r in res.records if r.get("k") == "roundtrip"}
    for r in rts.values():
        cls = r["cls"]
        if r["convex"] is False and cls != "Polygon":
            continue
        if r["rzero"] and cls not in ("ConvexSpheropolygon", "ConvexSpheropolyhedron"):
            continue
        names = list(me.bases(cls))
        if ctx.tier != "thorough":
            names = names[:2] + [n for n in names[2:] if n.endswith("_nano") or n.endswith("_vmean0") or n.endswith("_far")]
        if cls == "Polygon":
            names = ["dart_cw", "dart_negnormal"] if not r["convex"] else ["rect", "pent", "rect_negnormal"]
        for b in names:
            job = {"rec": r, "base": b}
            ctx.case(("roundtrip", cls, r["convex"], r["rzero"], b), sample={"class": cls, "base": b, "expected_back": r["back"],
                                                                  "gsd_keys": r["keys"], "hoomd_keys": r["hoomd"]})
            ctx.traces += 1
            for sig, detail in eval_roundtrip(job):
                ctx.violation(sig, detail)
    ctx.exhaustive = True
