"""C11: Steiner formulas of rounded shapes and curvature descriptors of convex polyhedra, from Convex3.tla / Polygon2.tla
records; C05 part: containment for box-cored spheropolyhedra."""
import json
import math
import warnings
from fractions import Fraction as F

from .placement import Placement, fl, palette
from .polygon_driver import h
from .runner import TAU
from .terms import PI, ev

warnings.filterwarnings("ignore")
RADII = [F(0), F(1, 1000), F(1, 10), F(1), F(7, 2), F(100)]     # times the core size


def eval_solid(case):
    import numpy as np
    import coxeter
    rec = case["rec"]
    pl = Placement.from_json(case["pl"])
    out = []
    maxrel = {}
    tags = ["nv%d" % len(rec["v"])] + pl.tags()

    def bad(cls, obs, msg, extra=()):
        out.append(({"cls": cls, "obs": obs, "tags": tags + list(extra), "msg": msg}, {"case": case, "cls": cls, "obs": obs}))

    def close(kind, e, o, mag=None):
        e, o = float(e), float(o)
        m = abs(e) if mag is None else mag
        w = abs(e - o) / (m or 1.0)
        if not math.isfinite(o) or w > TAU[kind]:
            return False
        maxrel[kind] = max(maxrel.get(kind, 0.0), w)
        return True

    s = pl.s
    verts = np.array(fl(pl.points(rec["v"])), dtype=float)
    V = s ** 3 * F(rec["vol6"], 6)
    S = float(s * s) * math.fsum(math.sqrt(f["a2sq"]) / 2 for f in rec["facets"])
    M = float(s) * float(ev(rec["curv"]["mterm"]))
    size = float(s) * math.sqrt(max(sum((a - b) ** 2 for a, b in zip(p, q)) for p in rec["v"] for q in rec["v"]))
    env0 = {"V": V, "S": S, "M": M}
    c = rec["curv"]
    try:
        P = coxeter.shapes.ConvexPolyhedron(verts)
    except Exception as e:
        bad("ConvexPolyhedron", "construct", f"rejected: {e}")
        return out, {"maxrel": maxrel}
    for obs, kind, term in (("mean_curvature", "length", {"ref": "M"}), ("tau", "dimensionless", c["tau"]),
                            ("asphericity", "dimensionless", c["asphericity"]), ("iq", "dimensionless", c["iq"])):
        try:
            want = ev(term, env0)
            got = getattr(P, obs)
            if not close(kind, want, got, None if kind == "length" else 1.0):
                bad("ConvexPolyhedron", obs, f"{obs} = {float(got)!r}, definition gives {float(want)!r}")
        except Exception as e:
            bad("ConvexPolyhedron", obs, f"raised {type(e).__name__}: {e}")
    # dihedral angles: for every pair of neighbouring faces, pi - acos(n1.n2)
    try:
        nrm = np.asarray(P.normals)
        for i in range(P.num_faces):
            for j in P.neighbors[i]:
                want = math.pi - math.acos(max(-1.0, min(1.0, float(np.dot(nrm[i], nrm[int(j)])))))
                if abs(float(P.get_dihedral(i, int(j))) - want) > 1e-9:
                    bad("ConvexPolyhedron", "get_dihedral", f"dihedral({i},{j}) differs from pi - acos(n_i.n_j)")
                    raise StopIteration
        # and the normals themselves are bound to the exact facet normals by C07; here: sum over edges gives M
    except StopIteration:
        pass
    except Exception as e:
        bad("ConvexPolyhedron", "get_dihedral", f"raised {type(e).__name__}: {e}")
    for rf in case["radii"]:
        r = F(rf[0], rf[1]) * F(size).limit_denominator(10 ** 6)
        env = dict(env0, r=r)
        try:
            Q = coxeter.shapes.ConvexSpheropolyhedron(verts.copy(), float(r))
        except Exception as e:
            bad("ConvexSpheropolyhedron", "construct", f"radius {float(r)} rejected: {e}")
            continue
        rt = ["r0" if r == 0 else "r_small" if rf[0] * 10 <= rf[1] else "r_large"]
        for obs, kind, term in (("volume", "volume", c["steiner_volume"]), ("surface_area", "area", c["steiner_area"]),
                                ("mean_curvature", "length", c["steiner_curvature"])):
            try:
                want = ev(term, env)
                got = getattr(Q, obs)
                if not close(kind, want, got):
                    bad("ConvexSpheropolyhedron", obs, f"{obs} = {float(got)!r} at r = {float(r)!r}, Steiner formula gives {float(want)!r}", rt)
            except Exception as e:
                bad("ConvexSpheropolyhedron", obs, f"raised {type(e).__name__}: {e}", rt)
        if r == 0:
            for obs in ("volume", "surface_area", "mean_curvature"):
                if not close("volume", getattr(P, obs), getattr(Q, obs)):
                    bad("ConvexSpheropolyhedron", obs, f"{obs} with r = 0 differs from the core's", rt)
    return out, {"maxrel": maxrel}


def eval_polygon(case):
    import numpy as np
    import coxeter
    rec = case["rec"]
    pl = Placement.from_json(case["pl"])
    out = []
    maxrel = {}
    tags = ["n%d" % len(rec["v"]), "ccw" if rec["ccw"] else "cw"] + pl.tags()

    def bad(obs, msg, extra=()):
        out.append(({"cls": "ConvexSpheropolygon", "obs": obs, "tags": tags + list(extra), "msg": msg}, {"case": case, "obs": obs}))

    s = pl.s
    A = s * s * F(rec["area2"], 2)
    Pm = float(s) * math.fsum(math.sqrt(e) for e in rec["edge2"])
    size = float(s) * 3.0
    v3 = np.array(fl(pl.points([(p[0], p[1], 0) for p in rec["v"]])), dtype=float)
    for nz in (1, -1):
        n = np.array(fl(pl.rot([0, 0, nz])))
        for rf in case["radii"]:
            r = F(rf[0], rf[1]) * F(size).limit_denominator(10 ** 6)
            try:
                Q = coxeter.shapes.ConvexSpheropolygon(v3.copy(), float(r), normal=n)
            except Exception as e:
                bad("construct", f"radius {float(r)} rejected: {e}")
                continue
            wa = float(A) + Pm * float(r) + math.pi * float(r) ** 2         # A + P r + pi r^2
            wp = Pm + 2 * math.pi * float(r)                              # P + 2 pi r
            for obs, want in (("area", wa), ("perimeter", wp), ("signed_area", wa)):     # vertices are re-ordered ccw about the normal
                try:
                    got = float(getattr(Q, obs))
                    w = abs(got - want) / abs(want)
                    if not math.isfinite(got) or w > 1e-9:
                        bad(obs, f"{obs} = {got!r} at r = {float(r)!r} (normal sign {nz}), Steiner formula gives {want!r}")
                    else:
                        maxrel["area"] = max(maxrel.get("area", 0.0), w)
                except Exception as e:
                    bad(obs, f"raised {type(e).__name__}: {e}")
    return out, {"maxrel": maxrel}


def build_cases(recs, tier, seed, key="v"):
    cases = []
    for r in recs:
        pal = palette(7, tier) + [Placement(s=F(1, 1000000), q=(1, 2, 2, 0), t=(F(1, 200000), 0, F(-3, 1000000)), name="micro_rot9")]
        k = h(r[key], seed)
        pls = [pal[0], pal[1 + k % (len(pal) - 1)]] if tier == "quick" else pal
        for i, pl in enumerate(pls):
            radii = RADII if (tier != "quick" or i == 0) else [RADII[0], RADII[1 + k % (len(RADII) - 1)]]
            cases.append({"rec": r, "pl": pl.to_json(), "radii": [[x.numerator, x.denominator] for x in radii]})
    return cases


# ---- C05: containment for box-cored spheropolyhedra (spec/SpheroBox.tla) ------------------------------------------
def eval_box_inside(case):
    import numpy as np
    import coxeter
    rec = case["rec"]
    pl = Placement.from_json(case["pl"])
    out = []
    hx = rec["h"]
    r = F(rec["r2"], 2)
    tags = ["r0" if r == 0 else "r_pos", "h%d%d%d" % tuple(hx)] + pl.tags()
    corners = [[sx * hx[0], sy * hx[1], sz * hx[2]] for sx in (-1, 1) for sy in (-1, 1) for sz in (-1, 1)]
    verts = np.array(fl(pl.points(corners)), dtype=float)
    try:
        Q = coxeter.shapes.ConvexSpheropolyhedron(verts, float(pl.s * r))
    except Exception as e:
        return [({"cls": "ConvexSpheropolyhedron", "obs": "construct", "tags": tags, "msg": str(e)}, {"case": case})], {}
    keep = [i for i, m in enumerate(rec["mem"]) if m != 2]
    pts = np.array(fl(pl.points([(F(rec["q2"][i][0], 2), F(rec["q2"][i][1], 2), F(rec["q2"][i][2], 2)) for i in keep])), dtype=float)
    want = np.array([rec["mem"][i] == 1 for i in keep])
    try:
        got = np.asarray(Q.is_inside(pts)).astype(bool)
        if got.shape != want.shape or not np.array_equal(got, want):
            j = int(np.nonzero(got != want)[0][0]) if got.shape == want.shape else 0
            q = rec["q2"][keep[j]]
            region = sum(1 for k in range(3) if abs(q[k]) > 2 * hx[k])
            out.append(({"cls": "ConvexSpheropolyhedron", "obs": "is_inside",
                         "tags": tags + [["core", "face_slab", "edge_cylinder", "vertex_cap"][region]],
                         "msg": f"point (half-lattice {q}) reported {bool(got[j]) if got.shape == want.shape else got.shape}, exact: distance to the "
                                f"core {'<' if want[j] else '>'} r = {float(r)}"}, {"case": case}))
        for j in range(0, len(keep), 53):
            g1 = np.asarray(Q.is_inside(pts[j]))
            if g1.shape != (1,) or bool(g1[0]) != bool(want[j]):
                out.append(({"cls": "ConvexSpheropolyhedron", "obs": "is_inside_single", "tags": tags,
                             "msg": f"single-point call disagrees with exact membership for half-lattice point {rec['q2'][keep[j]]}"}, {"case": case}))
                break
    except Exception as e:
        out.append(({"cls": "ConvexSpheropolyhedron", "obs": "is_inside", "tags": tags + ["raised"],
                     "msg": f"raised {type(e).__name__}: {str(e)[:200]}"}, {"case": case}))
    return out, {"unclear": len(rec["mem"]) - len(keep)}


def run_inside(ctx):
    from . import tlc
    from .pool import pmap
    cfg = ("SPECIFICATION Spec\nINVARIANT T1_Monotone\nINVARIANT Emit\nCHECK_DEADLOCK FALSE\nCONSTANTS\n"
           " HalfExtents = {1}\n Radii2 = {0, 1, 2, 3}\n Reach = 6\n")
    cfg = cfg.replace("HalfExtents = {1}", "HalfExtents <- HE")
    res = tlc.run("MC_SpheroBox", cfg, workers=4, timeout=600)
    ctx.tlc(res, "SpheroBox: exact membership in rounded boxes")
    if res.violated:
        ctx.violation({"cls": "spec", "obs": res.violated, "tags": ["T1"], "msg": "SpheroBox.tla inconsistency"}, {"tlc": res.stdout[-1500:]})
    recs = [r for r in res.records if r.get("k") == "spherobox"]
    cases = []
    for r in recs:
        pal = palette(4, ctx.tier)
        k = h(r["h"], ctx.seed) + r["r2"]
        for pl in ([pal[0], pal[1 + k % (len(pal) - 1)]] if ctx.tier == "quick" else pal):
            cases.append({"rec": r, "pl": pl.to_json()})
    for case, (mism, st) in zip(cases, pmap(eval_box_inside, cases)):
        ctx.case(("spherobox", json.dumps(case["rec"]["h"]), case["rec"]["r2"], json.dumps(case["pl"])), nontrivial=True,
                 sample={"half_extents": case["rec"]["h"], "radius": case["rec"]["r2"] / 2, "placement": case["pl"]})
        ctx.traces += 1
        ctx.unclear += st.get("unclear", 0)
        for sig, detail in mism:
            ctx.violation(sig, detail)
