"""C11: Steiner formulas of rounded shapes and curvature descriptors of convex polyhedra, from Convex3.tla / Polygon2.tla
records; C05 part: containment for box-cored spheropolyhedra."""
import json
import math
import warnings
from fractions import Fraction as F

from .placement import Placement, fl, palette
from .polygon_driver import h
from .runner import TAU
from .terms import PI, ev

warnings.filterwarnings("ignore")
RADII = [F(0), F(1, 1000), F(1, 10), F(1), F(7, 2), F(100)]     # times the core size


def eval_solid(case):
    import numpy as np
    import coxeter
    rec = case["rec"]
    pl = Placement.from_json(case["pl"])
    out = []
    maxrel = {}
    tags = ["nv%d" % len(rec["v"])] + pl.tags()

    def bad(cls, obs, msg, extra=()):
        out.append(({"cls": cls, "obs": obs, "tags": tags + list(extra), "msg": msg}, {"case": case, "cls": cls, "obs": obs}))

    def close(kind, e, o, mag=None):
        e, o = float(e), float(o)
        m = abs(e) if mag is None else mag
        w = abs(e - o) / (m or 1.0)
        if not math.isfinite(o) or w > TAU[kind]:
            return False
        maxrel[kind] = max(maxrel.get(kind, 0.0), w)
        return True

    s = pl.s
    verts = np.array(fl(pl.points(rec["v"])), dtype=float)
    V = s ** 3 * F(rec["vol6"], 6)
    S = float(s * s) * math.fsum(math.sqrt(f["a2sq"]) / 2 for f in rec["facets"])
    M = float(s) * float(ev(rec["curv"]["mterm"]))
    size = float(s) * math.sqrt(max(sum((a - b) ** 2 for a, b in zip(p, q)) for p in rec["v"] for q in rec["v"]))
    env0 = {"V": V, "S": S, "M": M}
    c = rec["curv"]
    try:
        P = coxeter.shapes.ConvexPolyhedron(verts)
    except Exception as e:
        bad("ConvexPolyhedron", "construct", f"rejected: {e}")
        return out, {"maxrel": maxrel}
    for obs, kind, term in (("mean_curvature", "length", {"ref": "M"}), ("tau", "dimensionless", c["tau"]),
                            ("asphericity", "dimensionless", c["asphericity"]), ("iq", "dimensionless", c["iq"])):
        try:
            want = ev(term, env0)
            got = getattr(P, obs)
            if not close(kind, want, got, None if kind == "length" else 1.0):
                bad("ConvexPolyhedron", obs, f"{obs} = {float(got)!r}, definition gives {float(want)!r}")
        except Exception as e:
            bad("ConvexPolyhedron", obs, f"raised {type(e).__name__}: {e}")
    # dihedral angles: for every pair of neighbouring faces, pi - acos(n1.n2)
    try:
        nrm = np.asarray(P.normals)
        for i in range(P.num_faces):
            for j in P.neighbors[i]:
                want = math.pi - math.acos(max(-1.0, min(1.0, float(np.dot(nrm[i], nrm[int(j)])))))
                if abs(float(P.get_dihedral(i, int(j))) - want) > 1e-9:
                    bad("ConvexPolyhedron", "get_dihedral", f"dihedral({i},{j}) differs from pi - acos(n_i.n_j)")
                    raise StopIteration
        # and the normals themselves are bound to the exact facet normals by C07; here: sum over edges gives M
    except StopIteration:
        pass
    except Exception as e:
        bad("ConvexPolyhedron", "get_dihedral", f"raised {type(e).__name__}: {e}")
    for rf in case["radii"]:
        r = F(rf[0], rf[1]) * F(size).limit_denominator(10 ** 6)
        env = dict(env0, r=r)
        try:
            Q = coxeter.shapes.ConvexSpheropolyhedron(verts.copy(), float(r))
        except Exception as e:
            bad("ConvexSpheropolyhedron", "construct", f"radius {float(r)} rejected: {e}")
            continue
        rt = ["r0" if r == 0 else "r_small" if rf[0] * 10 <= rf[1] else "r_large"]
        # the same rounded solid reached by queries and public setters (ShapeMachine: ReachByHistory) obeys the same formulas
        from .history import reach
        Qh = reach("ConvexSpheropolyhedron", verts, float(r), variant=len(rec["v"]) + rf[0]) if r > 0 else None
        for QQ, how in ((Q, []), (Qh, ["reached_by_history"])):
            if QQ is None:
                continue
            for obs, kind, term in (("volume", "volume", c["steiner_volume"]), ("surface_area", "area", c["steiner_area"]),
                                    ("mean_curvature", "length", c["steiner_curvature"])):
                try:
                    want = ev(term, env)
                    got = getattr(QQ, obs)
                    if not close(kind, want, got):
                        bad("ConvexSpheropolyhedron", obs, f"{obs} = {float(got)!r} at r = {float(r)!r}, Steiner formula gives {float(want)!r}"
                            + (" (shape reached through queries and setters)" if how else ""), rt + how)
                except Exception as e:
                    bad("ConvexSpheropolyhedron", obs, f"raised {type(e).__name__}: {e}", rt + how)
        if r == 0:
            for obs in ("volume", "surface_area", "mean_curvature"):
                if not close("volume", getattr(P, obs), getattr(Q, obs)):
                    bad("ConvexSpheropolyhedron", obs, f"{obs} with r = 0 differs from the core's", rt)
    return out, {"maxrel": maxrel}


def eval_polygon(case):
    import numpy as np
    import coxeter
    rec = case["rec"]
    pl = Placement.from_json(case["pl"])
    out = []
    maxrel = {}
    tags = ["n%d" % len(rec["v"]), "ccw" if rec["ccw"] else "cw"] + pl.tags()

    def bad(obs, msg, extra=()):
        out.append(({"cls": "ConvexSpheropolygon", "obs": obs, "tags": tags + list(extra), "msg": msg}, {"case": case, "obs": obs}))

    s = pl.s
    A = s * s * F(rec["area2"], 2)
    Pm = float(s) * math.fsum(math.sqrt(e) for e in rec["edge2"])
    size = float(s) * 3.0
    v3 = np.array(fl(pl.points([(p[0], p[1], 0) for p in rec["v"]])), dtype=float)
    for nz in (1, -1):
        n = np.array(fl(pl.rot([0, 0, nz])))
        for rf in case["radii"]:
            r = F(rf[0], rf[1]) * F(size).limit_denominator(10 ** 6)
            try:
                Q = coxeter.shapes.ConvexSpheropolygon(v3.copy(), float(r), normal=n)
            except Exception as e:
                bad("construct", f"radius {float(r)} rejected: {e}")
                continue
            wa = float(A) + Pm * float(r) + math.pi * float(r) ** 2         # A + P r + pi r^2
            wp = Pm + 2 * math.pi * float(r)                              # P + 2 pi r
            for obs, want in (("area", wa), ("perimeter", wp), ("signed_area", wa)):     # vertices are re-ordered ccw about the normal
                try:
                    got = float(getattr(Q, obs))
                    w = abs(got - want) / abs(want)
                    if not math.isfinite(got) or w > 1e-9:
                        bad(obs, f"{obs} = {got!r} at r = {float(r)!r} (normal sign {nz}), Steiner formula gives {want!r}")
                    else:
                        maxrel["area"] = max(maxrel.get("area", 0.0), w)
                except Exception as e:
                    bad(obs, f"raised {type(e).__name__}: {e}")
    return out, {"maxrel": maxrel}


def build_cases(recs, tier, seed, key="v"):
    cases = []
    for r in recs:
        pal = palette(7, tier) + [Placement(s=F(1, 1000000), q=(1, 2, 2, 0), t=(F(1, 200000), 0, F(-3, 1000000)), name="micro_rot9")]
        k = h(r[key], seed)
        pls = [pal[0], pal[1 + k % (len(pal) - 1)]] if tier == "quick" else pal
        for i, pl in enumerate(pls):
            radii = RADII if (tier != "quick" or i == 0) else [RADII[0], RADII[1 + k % (len(RADII) - 1)]]
            cases.append({"rec": r, "pl": pl.to_json(), "radii": [[x.numerator, x.denominator] for x in radii]})
    return cases


# ---- C05: containment for box-cored spheropolyhedra (spec/SpheroBox.tla) ------------------------------------------
def eval_box_inside(case):
    import numpy as np
    import coxeter
    rec = case["rec"]
    pl = Placement.from_json(case["pl"])
    out = []
    hx = rec["h"]
    r = F(rec["r2"], 2)
    tags = ["r0" if r == 0 else "r_pos", "h%d%d%d" % tuple(hx)] + pl.tags()
    corners = [[sx * hx[0], sy * hx[1], sz * hx[2]] for sx in (-1, 1) for sy in (-1, 1) for sz in (-1, 1)]
    verts = np.array(fl(pl.points(corners)), dtype=float)
    try:
        Q = coxeter.shapes.ConvexSpheropolyhedron(verts, float(pl.s * r))
    except Exception as e:
        return [({"cls": "ConvexSpheropolyhedron", "obs": "construct", "tags": tags, "msg": str(e)}, {"case": case})], {}
    keep = [i for i, m in enumerate(rec["mem"]) if m != 2]
    pts = np.array(fl(pl.points([(F(rec["q2"][i][0], 2), F(rec["q2"][i][1], 2), F(rec["q2"][i][2], 2)) for i in keep])), dtype=float)
    want = np.array([rec["mem"][i] == 1 for i in keep])
    # the same solid reached by queries and public setters (ShapeMachine: ReachByHistory) must answer the same
    from .history import reach
    Qh = reach("ConvexSpheropolyhedron", verts, float(pl.s * r), variant=sum(hx) + int(rec["r2"])) if r > 0 else None
    if Qh is not None:
        try:
            got = np.asarray(Qh.is_inside(pts)).astype(bool)
            if got.shape != want.shape or not np.array_equal(got, want):
                j = int(np.nonzero(got != want)[0][0]) if got.shape == want.shape else 0
                out.append(({"cls": "ConvexSpheropolyhedron", "obs": "is_inside", "tags": tags + ["reached_by_history"],
                             "msg": f"after queries, a resize and a move through public setters: point (half-lattice {rec['q2'][keep[j]]}) reported "
                                    f"{bool(got[j]) if got.shape == want.shape else got.shape}, exact: distance to the core "
                                    f"{'<' if want[j] else '>'} r = {float(r)}"}, {"case": case}))
        except Exception as e:
            out.append(({"cls": "ConvexSpheropolyhedron", "obs": "is_inside", "tags": tags + ["raised", "reached_by_history"],
                         "msg": f"raised {type(e).__name__}: {str(e)[:200]}"}, {"case": case}))
    try:
        got = np.asarray(Q.is_inside(pts)).astype(bool)
        if got.shape != want.shape or not np.array_equal(got, want):
            j = int(np.nonzero(got != want)[0][0]) if got.shape == want.shape else 0
            q = rec["q2"][keep[j]]
            region = sum(1 for k in range(3) if abs(q[k]) > 2 * hx[k])
            out.append(({"cls": "ConvexSpheropolyhedron", "obs": "is_inside",
                         "tags": tags + [["core", "face_slab", "edge_cylinder", "vertex_cap"][region]],
                         "msg": f"point (half-lattice {q}) reported {bool(got[j]) if got.shape == want.shape else got.shape}, exact: distance to the "
                                f"core {'<' if want[j] else '>'} r = {float(r)}"}, {"case": case}))
        for j in range(0, len(keep), 53):
            g1 = np.asarray(Q.is_inside(pts[j]))
            if g1.shape != (1,) or bool(g1[0]) != bool(want[j]):
                out.append(({"cls": "ConvexSpheropolyhedron", "obs": "is_inside_single", "tags": tags,
                             "msg": f"single-point call disagrees with exact membership for half-lattice point {rec['q2'][keep[j]]}"}, {"case": case}))
                break
    except Exception as e:
        out.append(({"cls": "ConvexSpheropolyhedron", "obs": "is_inside", "tags": tags + ["raised"],
                     "msg": f"raised {type(e).__name__}: {str(e)[:200]}"}, {"case": case}))
    return out, {"unclear": len(rec["mem"]) - len(keep)}


def run_inside(ctx):
    from . import tlc
    from .pool import pmap
    cfg = ("SPECIFICATION Spec\nINVARIANT T1_Monotone\nINVARIANT Emit\nCHECK_DEADLOCK FALSE\nCONSTANTS\n"
           " HalfExtents = {1}\n Radii2 = {0, 1, 2, 3}\n Reach = 6\n")
    cfg = cfg.replace("HalfExtents = {1}", "HalfExtents <- HE")
    res = tlc.run("MC_SpheroBox", cfg, workers=4, timeout=600)
    ctx.tlc(res, "SpheroBox: exact membership in rounded boxes")
    if res.violated:
        ctx.violation({"cls": "spec", "obs": res.violated, "tags": ["T1"], "msg": "SpheroBox.tla inconsistency"}, {"tlc": res.stdout[-1500:]})
    recs = [r for r in res.records if r.get("k") == "spherobox"]
    cases = []
    for r in recs:
        pal = palette(4, ctx.tier)
        k = h(r["h"], ctx.seed) + r["r2"]
        for pl in ([pal[0], pal[1 + k % (len(pal) - 1)]] if ctx.tier == "quick" else pal):
            cases.append({"rec": r, "pl": pl.to_json()})
    # general convex cores: exact point-polytope distances from Convex3.tla
    from . import convex_driver as cd
    # the exact distance of ~1000 lattice points per state is costly in TLC: random growth instead of the full subset lattice
    q = ctx.tier == "quick"
    from concurrent.futures import ThreadPoolExecutor
    with ThreadPoolExecutor(max_workers=4) as ex:
        f1 = ex.submit(cd.emit, ctx, "U12", 8, simulate=3 if q else 40, depth=5, minpts=5, rnd=True)
        f2 = ex.submit(cd.emit, ctx, "E21", 10, simulate=1 if q else 20, depth=7, minpts=5, rnd=True)
        # named cores with sharp ridges next to nearly flat facets (only the complete point sets)
        f3 = ex.submit(cd.emit, ctx, "Blade", 7, minpts=7, rnd=True)
        f4 = ex.submit(cd.emit, ctx, "Slab", 9, minpts=9, rnd=True)
        f5 = ex.submit(cd.emit, ctx, "Ridge", 8, minpts=8, rnd=True)
        ridge = [r for r in f5.result() if len(r["v"]) == 8]
        grecs = f1.result() + f2.result() + [r for r in f3.result() if len(r["v"]) == 7] + [r for r in f4.result() if len(r["v"]) == 9]
    gcases = []
    for r in grecs:
        pal = palette(7, ctx.tier)
        k = h(r["v"], ctx.seed)
        gcases.append({"rec": r, "pl": pal[k % len(pal)].to_json(), "radii": [[1, 2], [3, 2], [3, 1]]})
        if len(r["v"]) in (7, 9) and r["v"][0][2] == 0:
            gcases.append({"rec": r, "pl": pal[0].to_json(), "radii": [[1, 1], [2, 1], [7, 2]]})
    for r in ridge:
        # radii comparable to the length of the sharp stretch of the ridge (the lattice is a quarter of the unit there)
        pal = palette(7, ctx.tier)
        for pl in (pal[0], pal[1 + h(r["v"], ctx.seed) % (len(pal) - 1)]):
            gcases.append({"rec": r, "pl": pl.to_json(), "radii": [[5, 4], [9, 4], [7, 2]]})
    for case, (mism, st) in zip(gcases, pmap(eval_round_inside, gcases)):
        ctx.case(("roundcore", json.dumps(case["rec"]["v"]), json.dumps(case["pl"])), nontrivial=True,
                 sample={"core_vertices": case["rec"]["v"], "radii": case["radii"], "placement": case["pl"],
                         "example_point_and_squared_distance": [case["rec"]["dq"][0], case["rec"]["d2"][0]]})
        ctx.traces += 1
        ctx.unclear += st.get("unclear", 0)
        for sig, detail in mism:
            ctx.violation(sig, detail)
    for case, (mism, st) in zip(cases, pmap(eval_box_inside, cases)):
        ctx.case(("spherobox", json.dumps(case["rec"]["h"]), case["rec"]["r2"], json.dumps(case["pl"])), nontrivial=True,
                 sample={"half_extents": case["rec"]["h"], "radius": case["rec"]["r2"] / 2, "placement": case["pl"]})
        ctx.traces += 1
        ctx.unclear += st.get("unclear", 0)
        for sig, detail in mism:
            ctx.violation(sig, detail)


def eval_round_inside(case):
    """ConvexSpheropolyhedron.is_inside over a general convex lattice core: exact squared distances from Convex3.tla."""
    import numpy as np
    import coxeter
    rec = case["rec"]
    pl = Placement.from_json(case["pl"])
    out = []
    tags = ["nv%d" % len(rec["v"]), "general_core"] + pl.tags()
    verts = np.array(fl(pl.points(rec["v"])), dtype=float)
    pts_all = np.array(fl(pl.points(rec["dq"])), dtype=float)
    d2 = [F(x[0], x[1]) for x in rec["d2"]]
    unclear = 0
    for rr in case["radii"]:
        r = F(rr[0], rr[1])
        try:
            Q = coxeter.shapes.ConvexSpheropolyhedron(verts.copy(), float(pl.s * r))
        except Exception as e:
            out.append(({"cls": "ConvexSpheropolyhedron", "obs": "construct", "tags": tags, "msg": str(e)}, {"case": case}))
            continue
        keep, want = [], []
        for i, x in enumerate(d2):
            if x == 0:
                continue                      # inside or on the core: covered by the core's own check
            if abs(float(x) - float(r * r)) <= 1e-6 * float(r * r + 1):
                unclear += 1
                continue
            if x > (r + 1) ** 2 or (r > 1 and x < (r - 1) ** 2 and len(keep) % 7):
                continue                      # far from the rounded surface: nothing to learn (is_inside is slow per point)
            keep.append(i)
            want.append(x < r * r)
        want = np.array(want)
        try:
            got = np.asarray(Q.is_inside(pts_all[keep])).astype(bool)
            if got.shape != want.shape or not np.array_equal(got, want):
                j = int(np.nonzero(got != want)[0][0]) if got.shape == want.shape else 0
                out.append(({"cls": "ConvexSpheropolyhedron", "obs": "is_inside", "tags": tags + ["r=%s" % r],
                             "msg": f"lattice point {rec['dq'][keep[j]]} at exact distance sqrt({d2[keep[j]]}) from the core reported "
                                    f"{bool(got[j]) if got.shape == want.shape else got.shape} for r = {r}"}, {"case": case}))
        except Exception as e:
            out.append(({"cls": "ConvexSpheropolyhedron", "obs": "is_inside", "tags": tags + ["raised"],
                         "msg": f"raised {type(e).__name__}: {str(e)[:200]}"}, {"case": case}))
    return out, {"unclear": unclear}
