"""C11: Steiner formulas of rounded shapes and curvature descriptors of convex polyhedra, from Convex3.tla / Polygon2.tla
records; C05 part: containment for box-cored spheropolyhedra."""
import json
import math
import warnings
from fractions import Fraction as F

from .placement import Placement, fl, palette
from .polygon_driver import h
from .runner import TAU
from .terms import PI, ev

warnings.filterwarnings("ignore")
RADII = [F(0), F(1, 1000), F(1, 10), F(1), F(7, 2), F(100)]     # times the core size


def eval_solid(case):
    import numpy as np
    import coxeter
    rec = case["rec"]
    pl = Placement.from_json(case["pl"])
    out = []
    maxrel = {}
    tags = ["nv%d" % len(rec["v"])] + pl.tags()

    def bad(cls, obs, msg, extra=()):
        out.append(({"cls": cls, "obs": obs, "tags": tags + list(extra), "msg": msg}, {"case": case, "cls": cls, "obs": obs}))

    def close(kind, e, o, mag=None):
        e, o = float(e), float(o)
        m = abs(e) if mag is None else mag
        w = abs(e - o) / (m or 1.0)
        if not math.isfinite(o) or w > TAU[kind]:
            return False
        maxrel[kind] = max(maxrel.get(kind, 0.0), w)
        return True

    s = pl.s
    verts = np.array(fl(pl.points(rec["v"])), dtype=float)
    V = s ** 3 * F(rec["vol6"], 6)
    S = float(s * s) * math.fsum(math.sqrt(f["a2sq"]) / 2 for f in rec["facets"])
    M = float(s) * float(ev(rec["curv"]["mterm"]))
    size = float(s) * math.sqrt(max(sum((a - b) ** 2 for a, b in zip(p, q)) for p in rec["v"] for q in rec["v"]))
    env0 = {"V": V, "S": S, "M": M}
    c = rec["curv"]
    try:
        P = coxeter.shapes.ConvexPolyhedron(verts)
    except Exception as e:
        bad("ConvexPolyhedron", "construct", f"rejected: {e}")
        return out, {"maxrel": maxrel}
    for obs, kind, term in (("mean_curvature", "length", {"ref": "M"}), ("tau", "dimensionless", c["tau"]),
                            ("asphericity", "dimensionless", c["asphericity"]), ("iq", "dimensionless", c["iq"])):
        try:
            want = ev(term, env0)
            got = getattr(P, obs)
            if not close(kind, want, got, None if kind == "length" else 1.0):
                bad("ConvexPolyhedron", obs, f"{obs} = {float(got)!r}, definition gives {float(want)!r}")
        except Exception as e:
            bad("ConvexPolyhedron", obs, f"raised {type(e).__name__}: {e}")
    # dihedral angles: for every pair of neighbouring faces, pi - acos(n1.n2)
    try:
        nrm = np.asarray(P.normals)
        for i in range(P.num_faces):
            for j in P.neighbors[i]:
                want = math.pi - math.acos(max(-1.0, min(1.0, float(np.dot(nrm[i], nrm[int(j)])))))
                if abs(float(P.get_dihedral(i, int(j))) - want) > 1e-9:
                    bad("ConvexPolyhedron", "get_dihedral", f"dihedral({i},{j}) differs from pi - acos(n_i.n_j)")
                    raise StopIteration
        # and the normals themselves are bound to the exact facet normals by C07; here: sum over edges gives M
    except StopIteration:
        pass
    except Exception as e:
        bad("ConvexPolyhedron", "get_dihedral", f"raised {type(e).__name__}: {e}")
    for rf in case["radii"]:
        r = F(rf[0], rf[1]) * F(size).limit_denominator(10 ** 6)
        env = dict(env0, r=r)
        try:
            Q = coxeter.shapes.ConvexSpheropolyhedron(verts.copy(), float(r))
        except Exception as e:
            bad("ConvexSpheropolyhedron", "construct", f"radius {float(r)} rejected: {e}")
            continue
        rt = ["r0" if r == 0 else "r_small" if rf[0] * 10 <= rf[1] else "r_large"]
        for obs, kind, term in (("volume", "volume", c["steiner_volume"]), ("surface_area", "area", c["steiner_area"]),
                                ("mean_curvature", "length", c["steiner_curvature"])):
            try:
                want = ev(term, env)
                got = getattr(Q, obs)
                if not close(kind, want, got):
                    bad("ConvexSpheropolyhedron", obs, f"{obs} = {float(got)!r} at r = {float(r)!r}, Steiner formula gives {float(want)!r}", rt)
            except Exception as e:
                bad("ConvexSpheropolyhedron", obs, f"raised {type(e).__name__}: {e}", rt)
        if r == 0:
            for obs in ("volume", "surface_area", "mean_curvature"):
                if not close("volume", getattr(P, obs), getattr(Q, obs)):
                    bad("ConvexSpheropolyhedron", obs, f"{obs} with r = 0 differs from the core's", rt)
    return out, {"maxrel": maxrel}


def eval_polygon(case):
    import numpy as np
    import coxeter
    rec = case["rec"]
    pl = Placement.from_json(case["pl"])
    out = []
    maxrel = {}
    tags = ["n%d" % len(rec["v"]), "ccw" if rec["ccw"] else "cw"] + pl.tags()

    def bad(obs, msg, extra=()):
        out.append(({"cls": "ConvexSpheropolygon", "obs": obs, "tags": tags + list(extra), "msg": msg}, {"case": case, "obs": obs}))

    s = pl.s
    A = s * s * F(rec["area2"], 2)
    Pm = float(s) * math.fsum(math.sqrt(e) for e in rec["edge2"])
    size = float(s) * 3.0
    v3 = np.array(fl(pl.points([(p[0], p[1], 0) for p in rec["v"]])), dtype=float)
    for nz in (1, -1):
        n = np.array(fl(pl.rot([0, 0, nz])))
        for rf in case["radii"]:
            r = F(rf[0], rf[1]) * F(size).limit_denominator(10 ** 6)
            try:
                Q = coxeter.shapes.ConvexSpheropolygon(v3.copy(), float(r), normal=n)
            except Exception as e:
                bad("construct", f"radius {float(r)} rejected: {e}")
                continue
            wa = float(A) + Pm * float(r) + math.pi * float(r) ** 2         # A + P r + pi r^2
            wp = Pm + 2 * math.pi * float(r)                              # P + 2 pi r
            for obs, want in (("area", wa), ("perimeter", wp), ("signed_area", wa)):     # vertices are re-ordered ccw about the normal
                try:
                    got = float(getattr(Q, obs))
                    w = abs(got - want) / abs(want)
                    if not math.isfinite(got) or w > 1e-9:
                        bad(obs, f"{obs} = {got!r} at r = {float(r)!r} (normal sign {nz}), Steiner formula gives {want!r}")
                    else:
                        maxrel["area"] = max(maxrel.get("area", 0.0), w)
                except Exception as e:
                    bad(obs, f"raised {type(e).__name__}: {e}")
    return out, {"maxrel": maxrel}


def build_cases(recs, tier, seed, key="v"):
    cases = []
    for r in recs:
        pal = palette(7, tier) + [Placement(s=F(1, 1000000), q=(1, 2, 2, 0), t=(F(1, 200000), 0, F(-3, 1000000)), name="micro_rot9")]
        k = h(r[key], seed)
        pls = [pal[0], pal[1 + k % (len(pal) - 1)]] if tier == "quick" else pal
        for i, pl in enumerate(pls):
            radii = RADII if (tier != "quick" or i == 0) else [RADII[0], RADII[1 + k % (len(RADII) - 1)]]
            cases.append({"rec": r, "pl": pl.to_json(), "radii": [[x.numerator, x.denominator] for x in radii]})
    return cases
