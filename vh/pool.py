"""Process pool that evaluates cases against the implementation (each worker imports coxeter once)."""
import multiprocessing as mp
import os

from .common import NCPU


def _init():
    os.environ["OMP_NUM_THREADS"] = "1"
    import warnings
    warnings.filterwarnings("ignore")
    from .common import import_coxeter
    import_coxeter()


def pmap(fn, items, chunksize=None, procs=None):
    items = list(items)
    if not items:
        return []
    procs = procs or NCPU
    if len(items) < 32 or procs == 1:
        _init()
        return [fn(x) for x in items]
    ctx = mp.get_context("fork")
    cs = chunksize or max(1, min(200, len(items) // (procs * 8) or 1))
    with ctx.Pool(procs, initializer=_init) as p:
        return p.map(fn, items, chunksize=cs)
