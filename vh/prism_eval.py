"""T2 replay of spec/Prism3.tla: right prisms over (named and grown) non-convex lattice polygons as general Polyhedron objects
whose caps are single non-convex faces - exact volume, centroid, inertia tensor, surface area and membership, for every cyclic
shift of the cap faces' vertex lists (C09: relabelling changes nothing and a valid shape does not become an error)."""
import json
import math
from fractions import Fraction as F

from . import tlc
from .placement import Placement, fl, palette
from .polygon_driver import h as hsh

TAU = {"volume": 1e-9, "area": 1e-9, "point": 1e-9, "inertia": 1e-9}

CFG_T1 = """SPECIFICATION Spec
INVARIANT TypeOK
INVARIANT T1_SignedArea
INVARIANT T1_Centroid
INVARIANT T1_Planar
INVARIANT T1_Membership
INVARIANT T1_Prism
CHECK_DEADLOCK FALSE
"""
CFG_EMIT = """SPECIFICATION Spec
VIEW ViewPoly
INVARIANT PrismEmit
CHECK_DEADLOCK FALSE
"""


def _consts(G, maxv, seeds, heights, relabel, emit):
    c = {"G": G, "MaxV": maxv, "Relabel": "TRUE" if relabel else "FALSE", "WithBalls": "FALSE", "WithFF": "FALSE",
         "WithRadial": "FALSE", "EmitOn": "TRUE" if emit else "FALSE",
         "Heights": "{" + ", ".join(str(x) for x in heights) + "}"}
    if seeds:
        c["Seeds"] = "<-" + seeds
    else:
        c["Seeds"] = "{}"
    return c


def _run(cfg, consts, **kw):
    sub = [f" {k} <- {v[2:]}" if isinstance(v, str) and v.startswith("<-") else f" {k} = {v}" for k, v in consts.items()]
    return tlc.run("Prism3", cfg + "CONSTANTS\n" + "\n".join(sub) + "\n", **kw)


def t1(ctx, G, maxv, seeds, heights, relabel=True, simulate=None, depth=None):
    res = _run(CFG_T1, _consts(G, maxv, seeds, heights, relabel, False), timeout=1500, simulate=simulate, depth=depth)
    ctx.tlc(res, f"Prism3 T1 (surface sums = Fubini; polygon layer A = layer D) seeds={seeds or 'triangles'} G={G} MaxV={maxv}")
    if res.violated:
        ctx.violation({"cls": "spec", "obs": res.violated, "tags": ["T1"],
                       "msg": f"design-level counter-example: invariant {res.violated} fails in Prism3.tla"},
                      {"tlc_tail": res.stdout[-3000:]})
    return res


def emit(ctx, G, maxv, seeds, heights, relabel=False, simulate=None, depth=None):
    res = _run(CFG_EMIT, _consts(G, maxv, seeds, heights, relabel, True), timeout=1500, simulate=simulate, depth=depth,
               workers=4 if simulate else None)
    ctx.tlc(res, f"Prism3 emission seeds={seeds or 'triangles'} G={G} MaxV={maxv} heights={sorted(heights)}"
            + (f" simulate={simulate}" if simulate else ""))
    seen = {}
    for r in res.records:
        if r.get("k") == "prism":
            seen.setdefault(json.dumps([r["poly"], r["h"]]), r)
    return list(seen.values())


def expected(rec, pl):
    s = pl.s
    V0 = F(rec["vol2"], 2)
    c0 = [F(x, 6 * rec["area2"]) for x in rec["cen6"]]
    P0 = [[F(x, 24) for x in row] for row in rec["mom24"]]
    m1 = [V0 * x for x in c0]
    t = pl.t
    RP = pl.tensor(P0)
    Rm = pl.rot(m1)
    # second moments of the placed solid about the origin (Polyhedron.inertia_tensor is taken in the global frame)
    c = pl.point(c0)
    V = s ** 3 * V0
    P = [[s ** 3 * (s * s * RP[i][j] + s * (Rm[i] * t[j] + t[i] * Rm[j]) + V0 * t[i] * t[j]) for j in range(3)]
         for i in range(3)]
    tr = P[0][0] + P[1][1] + P[2][2]
    inertia = [[(tr if i == j else 0) - P[i][j] for j in range(3)] for i in range(3)]
    perim = sum(math.sqrt(x) for x in rec["edge2"])
    area = float(s * s) * (rec["area2"] + rec["h"] * perim)
    return dict(volume=V, centroid=c, inertia=inertia, area=area, cap_area=s * s * F(rec["area2"], 2))


def eval_case(case):
    """variant 'tri': caps cut into the triangles of the growth triangulation (all faces convex; every measure is exact, C02).
    variant 'single': each cap is ONE non-convex face.  On such faces volume / surface_area / get_face_area / inertia_tensor
    raise ValueError on the pinned tree for every labelling (get_face_area builds a ConvexPolygon), which is outside the listed
    properties; what C09 demands is that a cyclic shift of the caps' vertex lists changes nothing: every observable must do for
    the shifted labelling what it does for the listed one (same exact value, or the same refusal), and centroid and is_inside
    (which triangulate the faces) must give the exact answers."""
    import numpy as np
    import coxeter
    rec = case["rec"]
    pl = Placement.from_json(case["pl"])
    n = len(rec["poly"])
    kt, kb = case["kt"] % n, case["kb"] % n
    variant = case.get("variant", "single")
    tags = ["prism", "caps_" + variant, "n%d" % n, "reflex%d" % rec["reflex"], "cap_shift" if kt or kb else "cap_as_listed"] + pl.tags()
    out = []
    maxrel = {}

    def bad(obs, msg, exp=None, got=None):
        out.append(({"cls": "Polyhedron", "obs": obs, "tags": list(tags), "msg": msg},
                    {"case": case, "obs": obs, "expected": fl(exp) if exp is not None else None, "observed": got}))

    verts = np.array(fl(pl.points(rec["v"])), dtype=float)
    top, bot = list(rec["top"]), list(rec["bot"])
    sides = [list(f[(kt + i) % 4:]) + list(f[:(kt + i) % 4]) for i, f in enumerate(rec["sides"])]
    P0 = None
    try:
        if variant == "tri":
            caps = [list(t[(kt + i) % 3:]) + list(t[:(kt + i) % 3]) for i, t in enumerate(sorted(rec["tritop"]) + sorted(rec["tribot"]))]
            ncap = len(caps)
            P = coxeter.shapes.Polyhedron(verts.copy(), [np.array(f) for f in caps + sides], faces_are_convex=True)
        else:
            ncap = 2
            P = coxeter.shapes.Polyhedron(verts.copy(), [np.array(f) for f in [top[kt:] + top[:kt], bot[kb:] + bot[:kb]] + sides])
            P0 = coxeter.shapes.Polyhedron(verts.copy(), [np.array(f) for f in [top, bot] + sides])
    except Exception as e:
        bad("construct", f"valid closed mesh rejected (cap shifts {kt}, {kb}): {type(e).__name__}: {e}")
        return out, {"maxrel": maxrel}
    ex = expected(rec, pl)
    diam = float(np.max(np.linalg.norm(verts[:, None, :] - verts[None, :, :], axis=-1)))
    mlen = diam + float(np.max(np.linalg.norm(verts, axis=-1)))

    def close(kind, e, o, mag):
        e = np.asarray(fl(e), dtype=float).ravel()
        try:
            o = np.asarray(o, dtype=float).ravel()
        except Exception:
            return False
        if e.shape != o.shape or not np.all(np.isfinite(o)):
            return False
        w = float(np.max(np.abs(e - o))) / (abs(float(mag)) or 1.0) if e.size else 0.0
        if w <= TAU[kind]:
            maxrel[kind] = max(maxrel.get(kind, 0.0), w)
            return True
        return False

    # the inertia tensor (about the origin) is compared on the scale V * (diameter + offset)^2
    def cap_areas(X):
        a = X.get_face_area(list(range(ncap)))
        return [float(np.sum(a[:ncap // 2])), float(np.sum(a[ncap // 2:]))]

    checks = [
        ("volume", "volume", ex["volume"], lambda X: X.volume, float(ex["volume"])),
        ("surface_area", "area", ex["area"], lambda X: X.surface_area, ex["area"]),
        ("get_face_area(caps)", "area", [ex["cap_area"]] * 2, cap_areas, float(ex["cap_area"])),
        ("centroid", "point", ex["centroid"], lambda X: X.centroid, mlen),
        ("inertia_tensor", "inertia", ex["inertia"], lambda X: X.inertia_tensor, float(ex["volume"]) * mlen ** 2),
    ]
    for obs, kind, e, getter, mag in checks:
        try:
            o = getter(P)
        except Exception as exn:
            if P0 is not None and obs != "centroid":
                # a refusal is acceptable only if the listed labelling is refused in the same way
                try:
                    getter(P0)
                    same = False
                except Exception as ex0:
                    same = type(ex0) is type(exn)
                if not same:
                    bad(obs, f"raised {type(exn).__name__}: {str(exn)[:160]} for cap shifts ({kt}, {kb}) but not for the caps as listed", e)
                continue
            bad(obs, f"raised {type(exn).__name__}: {str(exn)[:200]} (cap shifts {kt}, {kb})", e)
            continue
        if not close(kind, e, o, mag):
            bad(obs, f"value differs from the exact integral (cap shifts {kt}, {kb})", e, np.asarray(o, dtype=float).tolist())
    unclear = 0
    if case.get("inside"):
        q, mem = rec["q2"], rec["mem"]
        keep = [i for i, m in enumerate(mem) if m != 2]
        unclear = len(mem) - len(keep)
        pts = np.array(fl(pl.points([(F(q[i][0], 2), F(q[i][1], 2), F(q[i][2], 2)) for i in keep])), dtype=float)
        want = np.array([mem[i] == 1 for i in keep])
        try:
            got = np.asarray(P.is_inside(pts))
            if got.shape != want.shape:
                bad("is_inside", f"batch result shape {got.shape}, expected {want.shape}")
            elif not np.array_equal(got.astype(bool), want):
                j = int(np.nonzero(got.astype(bool) != want)[0][0])
                # is the misjudged point (an exact non-member) in the plane of a face it is not on?  (a side face: on the line of
                # a polygon edge; a cap: z = 0 or z = h) - the tie-breaking of the winding number then sees determinants that are
                # zero up to rounding (known finding)
                qq = q[keep[j]]
                pol2 = [(2 * a, 2 * b) for a, b in rec["poly"]]
                on_line = any((pol2[(i + 1) % n][0] - pol2[i][0]) * (qq[1] - pol2[i][1]) == (pol2[(i + 1) % n][1] - pol2[i][1]) * (qq[0] - pol2[i][0])
                              for i in range(n))
                in_plane = (on_line or qq[2] in (0, 2 * rec["h"])) and not want[j]
                if in_plane:
                    tags.append("query_in_face_plane_outside_face")
                bad("is_inside", f"half-lattice point {q[keep[j]]} reported {bool(got[j])}, exact membership {bool(want[j])} "
                    f"(cap shifts {kt}, {kb})")
                if in_plane:
                    tags.remove("query_in_face_plane_outside_face")
        except Exception as exn:
            bad("is_inside", f"raised {type(exn).__name__}: {str(exn)[:200]} (cap shifts {kt}, {kb})")
    return out, {"maxrel": maxrel, "unclear": unclear}


def build_cases(recs, tier, seed, variant="single"):
    cases = []
    for r in recs:
        n = len(r["poly"])
        pal = palette(8, tier)
        k0 = hsh(r["poly"], seed)
        pls = [pal[0], pal[1 + k0 % (len(pal) - 1)]] if tier == "quick" else pal
        for ip, pl in enumerate(pls):
            for k in range(n):          # every start vertex of the top cap; the bottom cap runs through its shifts in another order
                if variant == "tri" and k >= 3:
                    break               # triangles have three start vertices
                cases.append({"rec": r, "pl": pl.to_json(), "kt": k, "kb": (3 * k + 1 + ip) % n, "variant": variant,
                              "inside": k == (k0 + ip) % n or (tier != "quick" and k % 3 == 0)})
    return cases


def replay(ctx, cases):
    from .pool import pmap
    for case, (mism, st) in zip(cases, pmap(eval_case, cases)):
        ctx.case(("prism", case.get("variant"), json.dumps(case["rec"]["poly"]), case["rec"]["h"], json.dumps(case["pl"]), case["kt"], case["kb"]),
                 nontrivial=True,
                 sample={"polygon": case["rec"]["poly"], "height": case["rec"]["h"], "cap_shifts": [case["kt"], case["kb"]], "caps": case.get("variant"),
                         "placement": case["pl"], "expected": {"vol2": case["rec"]["vol2"], "cen6": case["rec"]["cen6"],
                                                               "area2": case["rec"]["area2"]}})
        ctx.traces += 1
        ctx.unclear += st.get("unclear", 0)
        for k, w in st.get("maxrel", {}).items():
            ctx.maxrel[k] = max(ctx.maxrel.get(k, 0.0), w)
        for sig, detail in mism:
            ctx.violation(sig, detail)


def pick(recs, k, seed, min_reflex=2):
    """k grown records, many-cornered ones first (the emission of a -simulate run contains every successor of every step)."""
    good = [r for r in recs if r["reflex"] >= min_reflex]
    good.sort(key=lambda r: (-r["reflex"], hsh(r["poly"], seed)))
    return good[:k]
