"""T2 replay of Voxel3.tla records into coxeter.shapes.Polyhedron (C02 measures, C05 containment)."""
import json
import math
import warnings
from fractions import Fraction as F

from . import placement as plc
from . import tlc
from .placement import Placement, fl, palette
from .polygon_driver import h
from .pool import pmap
from .runner import TAU

warnings.filterwarnings("ignore")

CFG_T1 = "SPECIFICATION Spec\nINVARIANT T1_All\nCHECK_DEADLOCK FALSE\n"
CFG_EMIT = "SPECIFICATION Spec\nVIEW ViewC\nINVARIANT Emit\nCHECK_DEADLOCK FALSE\n"


def consts(box, maxcells, minemit, emit):
    return {"NX": box[0], "NY": box[1], "NZ": box[2], "MaxCells": maxcells, "MinEmit": minemit,
            "EmitOn": "TRUE" if emit else "FALSE"}


def t1(ctx, box, maxcells, timeout=2400):
    res = tlc.run("Voxel3", CFG_T1, constants=consts(box, maxcells, 1, False), timeout=timeout)
    ctx.tlc(res, f"Voxel3 T1 (AlgPolyhedron = cell counting, winding = occupancy) box={box} MaxCells={maxcells}")
    if res.violated:
        import re
        m = re.search(r'"T1-FAILED", "(\w+)"', res.stdout)
        ctx.violation({"cls": "spec", "obs": m.group(1) if m else res.violated, "tags": ["T1"],
                       "msg": "design-level counter-example in Voxel3.tla"}, {"tlc_tail": res.stdout[-3000:]})
    return res


def emit(ctx, box, maxcells, minemit=1, simulate=None, depth=None, timeout=2400):
    res = tlc.run("Voxel3", CFG_EMIT, constants=consts(box, maxcells, minemit, True), timeout=timeout,
                  simulate=simulate, depth=depth, workers=4 if simulate else None)
    ctx.tlc(res, f"Voxel3 emission box={box} MaxCells={maxcells}" + (f" simulate={simulate}" if simulate else ""))
    seen = {}
    for r in res.records:
        seen.setdefault(json.dumps(sorted(r["cells"])), r)
    return list(seen.values())


def expected(rec, pl):
    s = pl.s
    n = rec["vol"]
    V0 = F(n)
    c0 = [F(x, 2 * n) for x in rec["cen2"]]
    P0 = [[F(x, 12) for x in row] for row in rec["mom12"]]
    m1 = [V0 * x for x in c0]
    t = pl.t
    RP = pl.tensor(P0)
    Rm = pl.rot(m1)
    P = [[s ** 3 * (s * s * RP[i][j] + s * (Rm[i] * t[j] + t[i] * Rm[j]) + V0 * t[i] * t[j]) for j in range(3)]
         for i in range(3)]
    tr = P[0][0] + P[1][1] + P[2][2]
    inertia = [[(tr if i == j else 0) - P[i][j] for j in range(3)] for i in range(3)]
    return dict(volume=s ** 3 * V0, area=s * s * rec["area"], centroid=pl.point(c0), inertia=inertia,
                face_area=s * s)


def shape_tags(rec, pl):
    n = rec["vol"]
    cells = [tuple(c) for c in rec["cells"]]
    # star-shaped about the centroid? (exact test on the voxel solid: every cell centre visible is too costly; use
    # a cheap classification by name instead)
    xs = sorted({c[0] for c in cells}); ys = sorted({c[1] for c in cells}); zs = sorted({c[2] for c in cells})
    bbox = (xs[-1] - xs[0] + 1) * (ys[-1] - ys[0] + 1) * (zs[-1] - zs[0] + 1)
    tags = ["cells%d" % n, "box_filled" if bbox == n else "nonconvex"]
    return tags + pl.tags()


def eval_case(case):
    import numpy as np
    import coxeter
    rec = case["rec"]
    pl = Placement.from_json(case["pl"])
    which = case.get("which", ["measures"])
    tags = shape_tags(rec, pl)
    out = []
    maxrel = {}
    cls = "Polyhedron"

    def bad(obs, msg, exp=None, got=None):
        out.append(({"cls": cls, "obs": obs, "tags": tags, "msg": msg},
                    {"case": case, "obs": obs, "expected": fl(exp) if exp is not None else None, "observed": got}))

    verts = np.array(fl(pl.points(rec["v"])), dtype=float)
    faces = [list(f) for f in rec["faces"]]
    k = case.get("shift", 0)
    faces = [f[k % 4:] + f[:k % 4] for f in faces]
    snap = verts.copy()
    fsnap = [list(f) for f in faces]
    try:
        P = coxeter.shapes.Polyhedron(verts, [np.array(f) for f in faces], faces_are_convex=True)
    except Exception as e:
        bad("construct", f"valid closed mesh rejected: {type(e).__name__}: {e}")
        return out, {"maxrel": maxrel}
    ex = expected(rec, pl)
    diam = float(np.max(np.linalg.norm(verts[:, None, :] - verts[None, :, :], axis=-1)))
    far = float(np.max(np.linalg.norm(verts, axis=-1)))
    mlen = diam + far

    def close(kind, e, o, mag):
        e = np.asarray(fl(e), dtype=float).ravel()
        try:
            o = np.asarray(o, dtype=float).ravel()
        except Exception:
            return False
        if e.shape != o.shape or not np.all(np.isfinite(o)):
            return False
        mag = abs(float(mag)) or 1.0
        w = float(np.max(np.abs(e - o))) / mag if e.size else 0.0
        if w <= TAU[kind]:
            maxrel[kind] = max(maxrel.get(kind, 0.0), w)
            return True
        return False

    if "measures" in which:
        checks = [
            ("volume", "volume", ex["volume"], lambda: P.volume, float(ex["volume"])),
            ("surface_area", "area", ex["area"], lambda: P.surface_area, float(ex["area"])),
            ("get_face_area", "area", [ex["face_area"]] * len(faces), lambda: P.get_face_area(), float(ex["face_area"])),
            ("centroid", "point", ex["centroid"], lambda: P.centroid, mlen),
            ("inertia_tensor", "inertia", ex["inertia"], lambda: P.inertia_tensor,
             math.sqrt(sum(float(x) ** 2 for r in ex["inertia"] for x in r))),
        ]
        for obs, kind, e, getter, mag in checks:
            try:
                o = getter()
            except Exception as exn:
                bad(obs, f"raised {type(exn).__name__}: {exn}", e)
                continue
            if not close(kind, e, o, mag):
                bad(obs, "value differs from the exact integral", e, np.asarray(o, dtype=float).tolist())
                if obs == "inertia_tensor" and pl.is_identity_rotation and pl.s == 1 and not any(pl.t):
                    pass
    if "inside" in which:
        q = rec["q2"]
        mem = rec["mem"]
        keep = [i for i, m in enumerate(mem) if m != 2]
        pts = np.array(fl(pl.points([(F(q[i][0], 2), F(q[i][1], 2), F(q[i][2], 2)) for i in keep])), dtype=float)
        want = np.array([mem[i] == 1 for i in keep])
        psnap = pts.copy()
        try:
            got = np.asarray(P.is_inside(pts))
            if got.shape != want.shape:
                bad("is_inside", f"batch result shape {got.shape}, expected {want.shape}")
            elif not np.array_equal(got.astype(bool), want):
                j = int(np.nonzero(got.astype(bool) != want)[0][0])
                bad("is_inside", f"point {pts[j].tolist()} (half-lattice {q[keep[j]]}) reported {bool(got[j])}, "
                    f"exact membership {bool(want[j])}", want.tolist(), got.tolist())
            if not np.array_equal(pts, psnap):
                bad("is_inside_args", "is_inside modified the caller's points")
            for j in range(0, len(keep), case.get("single_step", 37)):
                g1 = np.asarray(P.is_inside(pts[j]))
                if g1.shape != (1,) or bool(g1[0]) != bool(want[j]):
                    bad("is_inside_single", f"single-point call on {pts[j].tolist()} gave {g1.tolist()}, exact {bool(want[j])}")
                    break
        except Exception as exn:
            bad("is_inside", f"raised {type(exn).__name__}: {exn}")
    if not np.array_equal(snap, verts):
        bad("construct_args", "the caller's vertex array was modified")
    return out, {"maxrel": maxrel, "unclear": sum(1 for m in rec["mem"] if m == 2) if "inside" in which else 0}


def build_cases(recs, which, tier, seed, n_placements):
    cases = []
    for r in recs:
        pal = palette(4, tier)
        start = h(r["cells"], seed)
        chosen = [pal[0]] + [pal[1:][(start + j) % (len(pal) - 1)] for j in range(min(n_placements, len(pal) - 1))]
        for ip, pl in enumerate(chosen):
            cases.append({"rec": r, "pl": pl.to_json(), "which": which, "shift": (start + ip) % 4,
                          "single_step": 37 if tier == "quick" else 5})
    return cases


def replay(ctx, cases):
    results = pmap(eval_case, cases)
    for case, (mism, stats) in zip(cases, results):
        key = (json.dumps(sorted(case["rec"]["cells"])), json.dumps(case["pl"]), case.get("shift"))
        trivial = case["rec"]["vol"] == 1 and case["pl"]["q"] == [1, 0, 0, 0] and case["pl"]["s"] == [1, 1] \
            and not any(t[0] for t in case["pl"]["t"])
        ctx.case(key, nontrivial=not trivial,
                 sample={"cells": case["rec"]["cells"], "n_vertices": len(case["rec"]["v"]),
                         "n_faces": len(case["rec"]["faces"]), "placement": case["pl"],
                         "expected": {"volume": case["rec"]["vol"], "area": case["rec"]["area"],
                                      "cen2": case["rec"]["cen2"]}})
        ctx.traces += 1
        ctx.unclear += stats.get("unclear", 0)
        for k, w in stats.get("maxrel", {}).items():
            ctx.maxrel[k] = max(ctx.maxrel.get(k, 0.0), w)
        for sig, detail in mism:
            ctx.violation(sig, detail)


def replay_record(rec):
    from .pool import _init
    _init()
    mism, _ = eval_case(rec["detail"]["case"])
    return [f"{s['cls']}.{s['obs']}: {s['msg']}" for s, _ in mism if s["obs"] == rec["signature"]["obs"]] or \
           [f"{s['cls']}.{s['obs']}: {s['msg']}" for s, _ in mism]
