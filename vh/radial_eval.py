"""C14: distance_to_surface for ConvexPolygon (exact ray/edge hits from Polygon2.tla), ConvexSpheropolygon (defining identity:
the returned point lies at distance r from the exact core polygon), Circle and Ellipse (radial term of Curved.tla)."""
import json
import math
import warnings
from fractions import Fraction as F

from .placement import Placement, fl
from .terms import ev, make_env

warnings.filterwarnings("ignore")
KS = (-2, -1, 0, 1, 2)


def zrot(pl_q):
    return pl_q[1] == 0 and pl_q[2] == 0


def _angles(u, pl):
    ur = pl.rot([u[0], u[1], 0])
    th = math.atan2(float(ur[1]), float(ur[0]))
    return [th + 2 * math.pi * k for k in KS]


def seg_dist(p, a, b):
    import numpy as np
    ab = b - a
    t = max(0.0, min(1.0, float(np.dot(p - a, ab) / np.dot(ab, ab))))
    return float(np.linalg.norm(p - (a + t * ab)))


def eval_polygon(case):
    """case: rec (convex polygon record with radial), pl (in-plane placement)."""
    import numpy as np
    import coxeter
    rec = case["rec"]
    pl = Placement.from_json(case["pl"])
    out = []
    tags = ["n%d" % len(rec["v"]), "ccw" if rec["ccw"] else "cw"] + pl.tags()
    v = rec["v"]
    n = len(v)
    if any((v[(i + 1) % n][0] - v[i][0]) == 0 or (v[(i + 1) % n][1] - v[i][1]) == 0 for i in range(n)):
        tags.append("axis_aligned_edge")
    v3 = np.array(fl(pl.points([(p[0], p[1], 0) for p in v])), dtype=float)
    s = float(pl.s)
    D = 3 * rec["area2"]
    cen = np.array(fl(pl.point([F(rec["cnum"][0], D), F(rec["cnum"][1], D), 0])))
    thetas, want, meta = [], [], []
    for h in rec["radial"]:
        u = h["u"]
        d = s * (h["tn"] / h["td"]) * math.sqrt(u[0] ** 2 + u[1] ** 2)
        for th in _angles(u, pl):
            thetas.append(th)
            want.append(d)
            meta.append(u)
        # the direction whose angle is exactly 0: angles a few ulps below 0 reduce to exactly 2 pi in floating point and are
        # still that direction to 1e-16 (the distance is continuous there)
        ur = pl.rot([u[0], u[1], 0])
        if ur[1] == 0 and ur[0] > 0:
            for th in (-1e-17, -2e-16, -4.4e-16, float(np.nextafter(0.0, -1.0)), 2 * math.pi - 4.4e-16, float(np.nextafter(2 * math.pi, 7.0))):
                thetas.append(th)
                want.append(d)
                meta.append(u + ["angle_just_below_a_multiple_of_2pi"])
    thetas = np.array(thetas)
    want = np.array(want)
    size = float(np.max(np.linalg.norm(v3 - v3.mean(axis=0), axis=1)))

    def bad(cls, obs, msg, extra=()):
        out.append(({"cls": cls, "obs": obs, "tags": tags + list(extra), "msg": msg}, {"case": case, "cls": cls}))

    def check_polygon(make, how):
        try:
            P = make()
            if P is None:
                return
            snap = thetas.copy()
            got = np.asarray(P.distance_to_surface(thetas), dtype=float)
            if not np.array_equal(snap, thetas):
                bad("ConvexPolygon", "distance_to_surface_args", "the angle array was modified", how)
            if got.shape != want.shape or not np.all(np.isfinite(got)) or np.max(np.abs(got - want)) > 1e-9 * size:
                k = int(np.argmax(np.abs(np.where(np.isfinite(got), got, 1e300) - want))) if got.shape == want.shape else 0
                kind = "vertex_direction" if abs(meta[k][0]) > 2 or abs(meta[k][1]) > 2 else \
                    "axis_direction" if 0 in meta[k] else "generic_direction"
                bad("ConvexPolygon", "distance_to_surface",
                    f"theta = {thetas[k]!r} (direction {meta[k]}): returned {got[k] if got.shape == want.shape else got.shape!r}, "
                    f"exact radial distance {want[k]!r}" + (f" ({how[0]})" if how else ""), [kind, "winding%+d" % KS[k % len(KS)]] + how)
        except Exception as e:
            bad("ConvexPolygon", "distance_to_surface", f"raised {type(e).__name__}: {e}", ["raised"] + how)

    from .history import reach
    var = len(rec["v"]) + len(tags)
    check_polygon(lambda: coxeter.shapes.ConvexPolygon(v3.copy(), normal=[0, 0, 1]), [])
    # the same polygon reached by queries and public setters, and as the live core of a rounded polygon that was queried,
    # resized and moved (ShapeMachine: ReachByHistory): the answers depend on the current geometry only
    check_polygon(lambda: reach("ConvexPolygon", v3, normal=[0, 0, 1], variant=var), ["reached_by_history"])

    def core_of_reached():
        Qh = reach("ConvexSpheropolygon", v3, 0.3 * size, normal=[0, 0, 1], variant=var)
        return None if Qh is None else Qh.polygon
    check_polygon(core_of_reached, ["core_of_rounded_reached_by_history"])
    # spheropolygon: defining identity on the output
    for rfrac in case["radii"]:
        r = float(F(rfrac[0], rfrac[1])) * size
        try:
            Q = coxeter.shapes.ConvexSpheropolygon(v3.copy(), r, normal=[0, 0, 1])
            got = np.asarray(Q.distance_to_surface(thetas.copy()), dtype=float)
            worst, kw = 0.0, 0
            core = np.asarray(Q.vertices, dtype=float)[:, :2]
            for k, (th, d) in enumerate(zip(thetas, got)):
                p = cen[:2] + d * np.array([math.cos(th), math.sin(th)])
                dist = min(seg_dist(p, core[i], core[(i + 1) % n]) for i in range(n))
                if not math.isfinite(d) or d <= 0:
                    dist = float("inf")
                if abs(dist - r) > worst:
                    worst, kw = abs(dist - r), k
            if worst > 1e-8 * (size + r):
                rt = "r0" if r == 0 else "r_small" if rfrac[0] * 2 < rfrac[1] else "r_large"
                bad("ConvexSpheropolygon", "distance_to_surface",
                    f"theta = {thetas[kw]!r}: the returned point is at distance {worst!r} (instead of 0) from the boundary "
                    f"(r = {r!r})", [rt, "irregular" if len(set(rec["edge2"])) > 1 else "equilateral"])
        except Exception as e:
            bad("ConvexSpheropolygon", "distance_to_surface", f"raised {type(e).__name__}: {e}", ["raised"])
    return out, {}


def eval_curved(rec):
    import numpy as np
    from . import curved_eval
    out = []
    cls = rec["cls"]
    tags = curved_eval.curved_tags(rec)
    try:
        P, env, ax, c = curved_eval.build(rec)
    except Exception as e:
        return [({"cls": cls, "obs": "construct", "tags": tags, "msg": str(e)}, {"case": rec})], {}
    us = [(1, 0), (0, 1), (-1, 0), (0, -1), (1, 1), (-1, 1), (1, -1), (-1, -1), (2, 1), (-1, 3), (3, -2), (-5, -1), (1, 7)]
    thetas, want = [], []
    for u in us:
        e2 = dict(env)
        e2.update(ux=F(u[0]), uy=F(u[1]))
        d = float(ev(rec["radial"], e2))
        for k in KS:
            thetas.append(math.atan2(u[1], u[0]) + 2 * math.pi * k)
            want.append(d)
    thetas, want = np.array(thetas), np.array(want)
    try:
        got = np.asarray(P.distance_to_surface(thetas.copy()), dtype=float)
        if got.shape != want.shape or np.max(np.abs(got - want)) > 1e-9 * float(np.max(want)):
            k = int(np.argmax(np.abs(got - want))) if got.shape == want.shape else 0
            out.append(({"cls": cls, "obs": "distance_to_surface", "tags": tags,
                         "msg": f"theta = {thetas[k]!r}: returned {got[k] if got.shape == want.shape else got.shape!r}, exact {want[k]!r}"},
                        {"case": rec}))
    except Exception as e:
        out.append(({"cls": cls, "obs": "distance_to_surface", "tags": tags + ["raised"], "msg": f"raised {type(e).__name__}: {e}"},
                    {"case": rec}))
    return out, {}
