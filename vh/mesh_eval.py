"""C20 (T3): files written by coxeter.io / Polyhedron.save are tokenised without format knowledge and validated by TLC
against the reader machines of spec/MeshFormats.tla."""
import json
import os
import random
import re
import shutil
import tempfile
import warnings
from xml.etree import ElementTree

from . import tlc
from .common import MachineryError, scratch
from .placement import Placement, fl, palette
from .polygon_driver import h
from .pool import pmap

warnings.filterwarnings("ignore")
FORMATS = ["OBJ", "OFF", "PLY", "VTK", "STL", "X3D", "HTML"]
CFG = "SPECIFICATION Spec\nCHECK_DEADLOCK FALSE\n"
_INT = re.compile(r"^[+-]?\d+$")


def tokenize_text(text, ids):
    lines = []
    for line in text.split("\n"):
        toks = []
        for tok in line.split():
            if tok.startswith("#"):
                toks.append({"c": tok})
            elif _INT.match(tok) and abs(int(tok)) < 2 ** 31:
                toks.append({"i": int(tok)})
            else:
                try:
                    toks.append({"f": ids.get(float(tok).hex(), -1)})
                except ValueError:
                    toks.append({"w": tok})
        lines.append(toks)
    return lines


def tokenize_xml(text, ids):
    if text.startswith("<!DOCTYPE"):
        text = text[text.index(">") + 1:]
    root = ElementTree.fromstring(text)
    lines = []

    def strip(tag):
        return tag.split("}")[-1]

    def walk(el, path):
        p = (path + "/" if path else "") + strip(el.tag)
        for k, v in el.attrib.items():
            lines.append([{"w": p}, {"w": strip(k)}] + [t for l in tokenize_text(v, ids) for t in l])
        for ch in el:
            walk(ch, p)
    walk(root, "")
    return lines


def stl_normal_signs(text):
    """Per facet: sign of normal . (b-a) x (c-a), from the facet's own tokens."""
    import numpy as np
    out = []
    lines = [l.split() for l in text.split("\n")]
    for i, l in enumerate(lines):
        if l[:2] == ["facet", "normal"] and len(l) == 5:
            try:
                n = np.array([float(x) for x in l[2:5]])
                vs = [np.array([float(x) for x in m[1:4]]) for m in lines[i + 1:i + 6] if m[:1] == ["vertex"]]
                d = float(np.dot(n, np.cross(vs[1] - vs[0], vs[2] - vs[0])))
                out.append(1 if d > 0 else -1 if d < 0 else 0)
            except Exception:
                out.append(0)
    return out


def record(job):
    """job: kind ('convex'|'polyhedron'|'voxel'), rec, pl, fmt, entry ('io'|'save'), tid."""
    import numpy as np
    import coxeter
    rec = job["rec"]
    pl = Placement.from_json(job["pl"])
    base_pts = [list(p) for p in rec["v"]]
    verts = np.array(fl(pl.points(base_pts)), dtype=float)
    try:
        if job["kind"] == "convex":
            shape = coxeter.shapes.ConvexPolyhedron(verts)
        elif job["kind"] == "polyhedron":
            hull = coxeter.shapes.ConvexPolyhedron(verts)
            shape = coxeter.shapes.Polyhedron(verts, [np.array(f) for f in hull.faces], faces_are_convex=True)
        else:
            shape = coxeter.shapes.Polyhedron(verts, [np.array(f) for f in rec["faces"]], faces_are_convex=True)
        before = (np.array(shape.vertices).tobytes(), [tuple(int(i) for i in f) for f in shape.faces])
        d = tempfile.mkdtemp(prefix="verif-mesh.", dir="/var/tmp")
        fn = os.path.join(d, "shape." + job["fmt"].lower())
        try:
            if job["entry"] == "save":
                shape.save(job["fmt"], fn)
            else:
                getattr(coxeter.io, "to_" + job["fmt"].lower())(shape, fn)
            with open(fn, "rb") as fh:
                raw = fh.read()
            leftover = [f for f in os.listdir(d) if f != os.path.basename(fn)]
        finally:
            shutil.rmtree(d, True)
        text = raw.decode("utf-8")
        after = (np.array(shape.vertices).tobytes(), [tuple(int(i) for i in f) for f in shape.faces])
    except Exception as e:
        return {"tid": job["tid"], "error": f"{type(e).__name__}: {e}"}
    V = np.asarray(shape.vertices, dtype=float)
    ids = {}
    for x in V.ravel():
        ids.setdefault(float(x).hex(), len(ids))
    table = [[ids[float(x).hex()] for x in row] for row in V]
    try:
        lines = tokenize_xml(text, ids) if job["fmt"] in ("X3D", "HTML") else tokenize_text(text, ids)
    except Exception as e:
        return {"tid": job["tid"], "error": f"file is not well-formed: {type(e).__name__}: {e}"}
    tr = {"tid": job["tid"], "fmt": job["fmt"], "lines": lines, "table": table,
          "faces": [[int(i) for i in f] for f in shape.faces], "nedges": int(len(shape.edges)),
          "pts": base_pts, "nsign": stl_normal_signs(text) if job["fmt"] == "STL" else [],
          "changed": before != after, "leftover": leftover}
    return tr


def canaries(traces):
    import copy
    out = []
    for fmt in FORMATS:
        src = next((t for t in traces if t.get("fmt") == fmt), None)
        if src is None:
            continue
        a = copy.deepcopy(src)
        a["tid"] = -1 - len(out)
        last = None
        for l in a["lines"]:                       # the LAST coordinate of the file loses its last digit
            for tok in l:                          # (header numbers such as "1.0" or "3.0" may coincide with a coordinate)
                if "f" in tok and tok["f"] >= 0:
                    last = tok
        if last is not None:
            last["f"] = -1
        out.append(a)
        b = copy.deepcopy(src)
        b["tid"] = -1 - len(out)
        b["faces"][0] = b["faces"][0][::-1]        # the file describes a face with the opposite orientation
        out.append(b)
    return out


def validate(ctx, traces, what):
    can = canaries(traces)
    allt = traces + can
    d = tempfile.mkdtemp(prefix="trace.", dir=scratch())
    path = os.path.join(d, "traces.json")
    with open(path, "w") as f:
        json.dump([{k: v for k, v in t.items() if k not in ("changed", "leftover")} for t in allt], f)
    res = tlc.run("MeshFormats", CFG, workers=1, timeout=1800, env={"TRACE_FILE": path})
    ctx.tlc(res, what)
    if res.distinct != len(allt) + 1:
        raise MachineryError(f"MeshFormats consumed {res.distinct - 1} of {len(allt)} traces: {res.stdout[-1500:]}")
    rej = [r for r in res.records if r.get("k") == "reject"]
    got = {r["tid"] for r in rej if r["tid"] < 0}
    if got != {c["tid"] for c in can}:
        raise MachineryError(f"MeshFormats failed to reject corrupted canary traces: rejected {sorted(got)} of {len(can)}")
    ctx.extra["canary_traces_rejected"] = len(got)
    return [r for r in rej if r["tid"] >= 0]


def run(ctx, convex_recs, voxel_recs, must=()):
    quick = ctx.tier == "quick"
    rnd = random.Random(ctx.seed + 20)
    convex_recs = sorted(convex_recs, key=lambda r: -len(r["facets"]))
    pick = convex_recs[:6] + rnd.sample(convex_recs[6:], min(len(convex_recs) - 6, 10 if quick else 200))
    vox = list(must) + rnd.sample(voxel_recs, min(len(voxel_recs), 6 if quick else 100))
    from fractions import Fraction as F
    extra = [Placement(s=1000000, t=(3, -7, 11), name="mega"),
             Placement(s=F(1, 1000000), q=(1, 2, 2, 0), t=(F(1, 500000), 0, F(-3, 1000000)), name="micro_rot9")]
    jobs = []
    for kind, recs in (("convex", pick), ("polyhedron", pick[:len(pick) // 2]), ("voxel", vox)):
        for r in recs:
            pal = palette(7, ctx.tier) + extra
            k = h(r["v"], ctx.seed)
            for j, fmt in enumerate(FORMATS):
                for e, entry in enumerate(("io", "save")):
                    pl = pal[(k + j + 3 * e) % len(pal)]
                    jobs.append({"kind": kind, "rec": {"v": r["v"], "faces": r.get("faces")}, "pl": pl.to_json(),
                                 "fmt": fmt, "entry": entry, "tid": len(jobs)})
    traces = pmap(record, jobs)
    good = []
    for job, tr in zip(jobs, traces):
        cls = "ConvexPolyhedron" if job["kind"] == "convex" else "Polyhedron"
        if "error" in tr:
            ctx.violation({"cls": cls, "obs": "to_" + job["fmt"].lower(), "tags": [job["entry"], "raised"],
                           "msg": f"export raised / produced an unreadable file: {tr['error']}"}, {"job": job})
            continue
        if tr["changed"]:
            ctx.violation({"cls": cls, "obs": "to_" + job["fmt"].lower(), "tags": [job["entry"], "shape_changed"],
                           "msg": "exporting changed the shape's vertices or faces"}, {"job": job})
        if tr["leftover"]:
            ctx.violation({"cls": cls, "obs": "to_" + job["fmt"].lower(), "tags": [job["entry"], "extra_files"],
                           "msg": f"export left extra files {tr['leftover']}"}, {"job": job})
        good.append(tr)
    rejects = validate(ctx, good, f"MeshFormats: {len(good)} exported files read back")
    for rj in rejects:
        job = jobs[rj["tid"]]
        cls = "ConvexPolyhedron" if job["kind"] == "convex" else "Polyhedron"
        ctx.violation({"cls": cls, "obs": "to_" + job["fmt"].lower(), "tags": [rj["why"]] + Placement.from_json(job["pl"]).tags(),
                       "msg": f"the {job['fmt']} file is rejected by the reader of MeshFormats.tla: clause {rj['why']}"},
                      {"job": job, "reject": rj})
    for tr in good:
        ctx.case(("file", tr["tid"]), sample=None)
        ctx.traces += 1
    if good:
        s = dict(good[0])
        s["lines"] = s["lines"][:8]
        ctx.samples.append({"recorded_file_trace (first lines)": s})
    # save() with an unknown type: ValueError and no file
    import coxeter
    import numpy as np
    from .pool import _init
    _init()
    shape = coxeter.shapes.ConvexPolyhedron(np.array(pick[0]["v"], dtype=float))
    for bad in ("obj", "XYZ", "", "stl "):
        d = tempfile.mkdtemp(prefix="verif-mesh.", dir="/var/tmp")
        try:
            try:
                shape.save(bad, os.path.join(d, "x.out"))
                ctx.violation({"cls": "ConvexPolyhedron", "obs": "save", "tags": ["unknown_type_accepted"],
                               "msg": f"save({bad!r}, ...) did not raise"}, {"filetype": bad})
            except ValueError:
                pass
            except Exception as e:
                ctx.violation({"cls": "ConvexPolyhedron", "obs": "save", "tags": ["wrong_exception"],
                               "msg": f"save({bad!r}, ...) raised {type(e).__name__}"}, {"filetype": bad})
            if os.listdir(d):
                ctx.violation({"cls": "ConvexPolyhedron", "obs": "save", "tags": ["file_written"],
                               "msg": f"save({bad!r}, ...) wrote a file"}, {"filetype": bad})
        finally:
            shutil.rmtree(d, True)
        ctx.case(("save_unknown", bad))
