"""Shapes reached by a history instead of by their constructor (spec/ShapeMachine.tla: Init, Read*, SetSize, [SetCoreSize,
SetRadius,] SetCentroid - the path `ReachByHistory` - ends in the abstract state of a directly constructed shape).

Every evaluator that builds a vertex-based shape at a placement and compares its answers with exact values may ask for the
same shape through `reach(...)`: the object is constructed similar to the target (factor g about the vertex mean, moved by a
few diameters), every query the evaluators use is asked once of the object and of its live core (so that anything the
implementation stores is stored for the *old* geometry), and then public setters take it to the target: a size setter of the
shape (or of its core plus the radius setter) by the factor 1/g and a centroid assignment on the shape or its core.  If the
vertices reached differ from the target by more than 1e-9 of the size the history is not used (None is returned and the
caller constructs directly): a setter that is not a similarity is C08's business and the exact values of the caller would
describe a different solid.
"""
import math
import warnings

GS = (1.0 / 3.0, 700.0, 2.5)
WARM_Q = [[0.3, -0.2, 0.5], [0.0, 0.0, 0.9], [0.0, 0.0, 0.0]]
WARM_ANGLES = [0.1, 1.3, 2.9, 4.4, 5.9]


def warm(obj, pts=None, light=False):
    """Ask everything once; answers are discarded, exceptions are not our business here."""
    import numpy as np
    with warnings.catch_warnings():
        warnings.simplefilter("ignore")
        for name in (("volume", "area", "centroid", "inertia_tensor", "face_centroids", "edges") if light else dir(type(obj))):
            if name.startswith("_") or name in ("plot", "to_plato_scene"):
                continue
            attr = getattr(type(obj), name, None)
            if isinstance(attr, property) or type(attr).__name__ == "cached_property":
                try:
                    getattr(obj, name)
                except Exception:
                    pass
        for call in (lambda: obj.compute_form_factor_amplitude(np.array(WARM_Q)),
                     lambda: obj.distance_to_surface(np.array(WARM_ANGLES)),
                     lambda: obj.get_face_area(),
                     lambda: obj.is_inside(pts),
                     lambda: obj.get_dihedral(0, int(obj.neighbors[0][0])),
                     lambda: obj.to_hoomd()):
            try:
                call()
            except Exception:
                pass


def reach(cls_name, verts, radius=None, normal=None, variant=0, faces=None):
    """The shape `cls_name(verts[, radius])` reached through queries and public setters, or None when that is not possible."""
    import numpy as np
    import coxeter
    verts = np.array(verts, dtype=float)
    g = GS[variant % len(GS)]
    m = verts.mean(axis=0)
    size = float(np.max(np.linalg.norm(verts - m, axis=1))) or 1.0
    dim3 = cls_name in ("ConvexPolyhedron", "Polyhedron", "ConvexSpheropolyhedron")
    if dim3:
        shift = np.array([0.7, -1.9, 1.3]) * size * g
    else:
        # stay in the plane of the polygon: shift along an edge direction
        e = verts[1] - verts[0]
        shift = 2.3 * g * size * e / (np.linalg.norm(e) or 1.0)
    v0 = (verts - m) * g + m + shift
    ctor = getattr(coxeter.shapes, cls_name)
    kw = {}
    if normal is not None:
        kw["normal"] = normal
    try:
        with warnings.catch_warnings():
            warnings.simplefilter("ignore")
            if cls_name in ("ConvexSpheropolyhedron", "ConvexSpheropolygon"):
                obj = ctor(v0, float(radius) * g, **kw)
            elif cls_name == "Polyhedron":
                obj = ctor(v0, faces, **kw)
            else:
                obj = ctor(v0, **kw)
            core = None
            for attr in ("polyhedron", "polygon"):
                if hasattr(obj, attr):
                    core = getattr(obj, attr)
            # warm-up: points around the old geometry (inside, in the rounding layer, outside)
            dirs = np.array([[1, 0, 0], [0, 1, 0], [0, 0, 1], [-1, 0, 0], [0, -1, 0], [0, 0, -1], [1, 1, 1], [-1, 1, -1]], dtype=float)
            dirs /= np.linalg.norm(dirs, axis=1)[:, None]
            m0 = v0.mean(axis=0)
            pts = np.concatenate([m0 + f * g * size * dirs for f in (0.31, 0.83, 1.09, 1.61)])
            if not dim3:
                n = np.cross(v0[1] - v0[0], v0[2] - v0[0])
                n /= np.linalg.norm(n) or 1.0
                pts = pts - np.outer((pts - m0) @ n, n)
            warm(obj, pts)
            if core is not None:
                warm(core, pts)
            # the way to the target
            k = 1.0 / g
            if core is None:
                if dim3:
                    obj.volume = obj.volume * k ** 3
                else:
                    obj.area = obj.area * k ** 2
                warm(obj, _around(obj, dim3), light=True)
                obj.centroid = np.asarray(obj.centroid) + (m - _mean(obj))
            else:
                if variant % 2 == 0:
                    # the rounded shape's own setter scales core and radius together
                    if dim3:
                        obj.volume = obj.volume * k ** 3
                    else:
                        obj.area = obj.area * k ** 2
                else:
                    # through the live core and the radius setter
                    if dim3:
                        core.volume = core.volume * k ** 3
                    else:
                        core.area = core.area * k ** 2
                    obj.radius = obj.radius * k
                # asked again between the two mutations: what is stored now belongs to the right size at the wrong place
                warm(obj, _around(obj, dim3), light=True)
                warm(core, _around(obj, dim3), light=True)
                core.centroid = np.asarray(core.centroid) + (m - _mean(obj))
        got = np.asarray(obj.vertices, dtype=float)
        if got.shape != verts.shape:
            return None
        # ConvexPolygon may reorder: compare as sets of rows by nearest match
        if cls_name in ("ConvexPolygon", "ConvexSpheropolygon"):
            d = np.linalg.norm(got[:, None, :] - verts[None, :, :], axis=2).min(axis=1)
            ok = bool(np.all(d <= 1e-9 * size))
        else:
            ok = bool(np.allclose(got, verts, rtol=0, atol=1e-9 * size))
        if radius is not None and not math.isclose(float(obj.radius), float(radius), rel_tol=1e-9, abs_tol=0.0):
            ok = False
        return obj if ok else None
    except Exception:
        return None


def _mean(obj):
    import numpy as np
    return np.asarray(obj.vertices, dtype=float).mean(axis=0)


_DIRS = [[1, 0, 0], [0, 1, 0], [0, 0, 1], [-1, 0, 0], [0, -1, 0], [0, 0, -1], [1, 1, 1], [-1, 1, -1]]


def _around(obj, dim3):
    """Points inside, in a rounding layer and outside the current geometry (in its plane for a polygon)."""
    import numpy as np
    v = np.asarray(obj.vertices, dtype=float)
    m = v.mean(axis=0)
    size = float(np.max(np.linalg.norm(v - m, axis=1))) or 1.0
    d = np.array(_DIRS, dtype=float)
    d /= np.linalg.norm(d, axis=1)[:, None]
    pts = np.concatenate([m + f * size * d for f in (0.31, 0.83, 1.09, 1.61)])
    if not dim3:
        n = np.cross(v[1] - v[0], v[2] - v[0])
        n /= np.linalg.norm(n) or 1.0
        pts = pts - np.outer((pts - m) @ n, n)
    return pts
