"""Binding of spec/HeapModel.tla (aliasing of arrays) to the implementation: the alias facts the model predicts for
each call (which fields re-bind, whether the return value shares an internal array, whether handed-out and
caller-owned arrays stay intact, whether to_hoomd's result is centred) are observed on real objects."""
import json
import warnings

from . import machine_eval as me
from . import tlc
from .common import MachineryError

warnings.filterwarnings("ignore")

CFG = """SPECIFICATION Spec
INVARIANT CtorNoAlias
INVARIANT OwnedIntact
INVARIANT HandedIntact
INVARIANT HoomdCentred
PROPERTY QueryKeepsObjects
CHECK_DEADLOCK FALSE
VIEW ViewH
"""
KINDS = {"polygon": ["Polygon", "ConvexPolygon"], "polyhedron": ["Polyhedron", "ConvexPolyhedron"],
         "curved": ["Circle", "Ellipse", "Sphere", "Ellipsoid"]}
FIELDS = {"polygon": {"vertices": "_vertices", "normal": "_normal"},
          "polyhedron": {"vertices": "_vertices", "faces": "_faces", "equations": "_equations"},
          "curved": {"centroid": "_centroid"}}


def model(ctx, kind, maxops):
    consts = {"Kind": json.dumps(kind), "MaxOps": maxops, "Pinned": "FALSE", "EmitOn": "TRUE"}
    res = tlc.run("HeapModel", CFG, constants=consts, workers=4, timeout=600)
    ctx.tlc(res, f"HeapModel kind={kind} MaxOps={maxops}")
    if res.violated:
        ctx.violation({"cls": "spec", "obs": res.violated, "tags": ["T1", kind],
                       "msg": f"design-level counter-example: {res.violated} fails in HeapModel.tla"},
                      {"tlc_tail": res.stdout[-3000:]})
    # canary: the bodies of the pinned snapshot must violate the properties (otherwise the model is vacuous)
    consts["Pinned"] = "TRUE"
    consts["EmitOn"] = "FALSE"
    can = tlc.run("HeapModel", CFG, constants=consts, workers=2, timeout=600)
    if not can.violated:
        raise MachineryError(f"HeapModel canary: the pinned-snapshot bodies do not violate any property (kind={kind})")
    ctx.extra.setdefault("heap_model_canaries_rejected", []).append(f"{kind}: {can.violated}")
    facts = {}
    for r in res.records:
        if r.get("k") == "heapedge":
            op = r["ret"]["op"]
            key = json.dumps({k: r[k] for k in ("handed_intact", "owned_intact", "no_ctor_alias", "centred")} |
                             {"rebinds": sorted(r["ret"]["rebinds"]), "alias": r["ret"]["alias"]}, sort_keys=True)
            facts.setdefault(op, set()).add(key)
    return {op: [json.loads(k) for k in ks] for op, ks in facts.items()}


def _arrays(v):
    import numpy as np
    if isinstance(v, np.ndarray):
        return [v]
    if isinstance(v, dict):
        return [a for x in v.values() for a in _arrays(x)]
    if isinstance(v, (list, tuple)):
        return [a for x in v for a in _arrays(x)]
    return []


def observe(cls, kind, op):
    """Execute op on a real object built from caller-owned arrays; return the observed alias facts."""
    import numpy as np
    import coxeter
    spec = me.bases(cls)[{"Polygon": "dart_cw", "ConvexPolygon": "kite", "Polyhedron": "wedge5", "ConvexPolyhedron": "wedge5",
                          "Circle": "circle", "Ellipse": "ellipse_ab", "Sphere": "sphere", "Ellipsoid": "ellipsoid_abc"}[cls]]
    S = coxeter.shapes
    owned = {}
    if kind == "curved":
        c = np.array(spec["c"], dtype=float)
        owned["centroid"] = c
        obj = getattr(S, cls)(*spec["ax"], c)
    elif kind == "polygon":
        tmp = me.build(cls, spec)
        va = np.array(tmp.vertices, dtype=float)
        na = np.array(tmp.normal, dtype=float)
        owned["vertices"], owned["normal"] = va, na
        obj = getattr(S, cls)(va, normal=na)
    else:
        tmp = me.build("Polyhedron", me.bases("Polyhedron")["wedge5"])
        va = np.array(tmp.vertices, dtype=float)
        fa = [np.array(f) for f in tmp.faces]
        owned["vertices"], owned["faces"] = va, fa
        obj = S.ConvexPolyhedron(va) if cls == "ConvexPolyhedron" else S.Polyhedron(va, fa, faces_are_convex=True)
    owned_snap = {k: [a.copy() for a in _arrays(v)] for k, v in owned.items()}
    fld = FIELDS[kind]
    handed = {f: getattr(obj, f if f != "centroid" else "centroid") for f in fld if hasattr(obj, f)}
    handed_snap = {k: [a.copy() for a in _arrays(v)] for k, v in handed.items()}
    before = {f: getattr(obj, attr, None) for f, attr in fld.items()}
    before_ids = {f: [id(a) for a in _arrays(v)] + [id(v)] for f, v in before.items()}
    result = None
    mutator = False
    if op.startswith("get_"):
        name = op[4:]
        if name == "equations" and not hasattr(obj, "equations"):
            name = "normals"                 # Polyhedron exposes the plane equations through .normals (a view)
        result = getattr(obj, name)
    elif op == "pure_query":
        result = None
        _ = obj.is_inside(np.array([[0.1, 0.2, 0.3]]))
    elif op == "inertia_tensor":
        _ = obj.inertia_tensor
    elif op == "to_hoomd":
        if not hasattr(obj, "to_hoomd"):
            return None
        result = obj.to_hoomd()
    elif op == "set_centroid":
        arg = np.array([1.0, -2.0, 0.5])
        owned["arg"] = arg
        owned_snap["arg"] = [arg.copy()]
        obj.centroid = arg
        mutator = True
    elif op == "rescale":
        if kind == "polygon":
            obj.area = obj.area * 4
        else:
            obj.volume = obj.volume * 8
        mutator = True
    elif op == "sort_faces":
        obj.sort_faces()
        mutator = True
    elif op == "diagonalize_inertia":
        obj.diagonalize_inertia()
        mutator = True
    else:
        return None
    after = {f: getattr(obj, attr, None) for f, attr in fld.items()}
    rebinds = sorted(f for f in fld if ([id(a) for a in _arrays(after[f])] + [id(after[f])]) != before_ids[f])
    internal = [a for f in fld for a in _arrays(after[f])]
    res_arrays = _arrays(result)
    # only coordinate (float) arrays matter: index arrays do not depend on the position of the shape
    alias = any(np.shares_memory(r, a) for r in res_arrays for a in internal
                if r.dtype.kind == "f" and a.dtype.kind == "f") if not op.startswith("get_") else True
    mlen = float(np.max(np.abs(me.geom(obj)))) * 2 + 1.0

    def intact(snaps, cur):
        for k, s in snaps.items():
            for a, b in zip(_arrays(cur[k]), s):
                if a.shape != b.shape or not (np.array_equal(a, b) or (a.dtype.kind == "f" and np.allclose(a, b, rtol=0, atol=1e-12 * mlen))):
                    return False
        return True

    facts = {"rebinds": rebinds, "alias": bool(alias),
             "handed_intact": True if mutator else intact(handed_snap, handed),
             "owned_intact": intact(owned_snap, owned),
             "no_ctor_alias": not any(np.shares_memory(a, o) for a in internal for v in owned.values() for o in _arrays(v)),
             "centred": False}
    if op == "to_hoomd":
        cen = np.asarray(result.get("centroid", [1, 1, 1]), dtype=float)
        ok = bool(np.all(np.abs(cen) <= 1e-9 * mlen))
        if "vertices" in result and kind != "curved":
            v = np.asarray(result["vertices"], dtype=float)
            if v.shape[1] == 3 and cls in ("Polyhedron", "ConvexPolyhedron"):
                c2 = np.asarray(getattr(S, cls)(v, *([result["faces"]] if cls == "Polyhedron" else [])).centroid)
                ok = ok and bool(np.all(np.abs(c2) <= 1e-9 * mlen))
            else:
                ok = ok and bool(np.all(np.abs(np.asarray(S.Polygon(v).centroid)[:2]) <= 1e-9 * mlen))
        facts["centred"] = ok
    return facts


def run(ctx):
    from .pool import _init
    _init()
    for kind, classes in KINDS.items():
        preds = model(ctx, kind, 4 if ctx.tier == "quick" else 5)
        for cls in classes:
            for op, alts in sorted(preds.items()):
                obs = observe(cls, kind, op)
                if obs is None:
                    continue
                ctx.case(("heap", cls, op), sample={"class": cls, "call": op, "predicted_alias_facts": alts[0]})
                ctx.traces += 1
                # the model's 'rebinds' for getters etc. are exact; several alternatives arise from different pre-states
                keys = ["handed_intact", "owned_intact", "no_ctor_alias"] + (["centred", "alias"] if op == "to_hoomd" else []) \
                    + (["rebinds"] if op in ("inertia_tensor", "pure_query") or op.startswith("get_") else [])
                if not any(all(obs[k] == a[k] for k in keys) for a in alts):
                    bad = [k for k in keys if all(obs[k] != a[k] for a in alts)]
                    ctx.violation({"cls": cls, "obs": op, "tags": ["alias_facts"] + bad,
                                   "msg": f"observed alias facts {obs} differ from HeapModel.tla's prediction {alts[0]} in {bad}"},
                                  {"cls": cls, "kind": kind, "op": op, "observed": obs, "predicted": alts})
