"""C16: queries are free of side effects.  Every public property / query method / exporter of every class
(enumerated by reflection) is run on shapes in general position, alone and in ordered pairs, while the harness
holds (a) the arrays it passed to the constructor, (b) references to every array the shape hands out, (c) the
arrays it passes as arguments, and compares all of them and the shape's full projection afterwards."""
import functools
import io as _io
import json
import os
import random
import tempfile
import warnings

from . import machine_eval as me

warnings.filterwarnings("ignore")

MUTATORS = {"diagonalize_inertia", "merge_faces", "sort_faces"}
EXCLUDED = {"plot", "to_plato_scene"}
ALL = ["ConvexPolyhedron", "Polyhedron", "ConvexSpheropolyhedron", "Polygon", "ConvexPolygon", "ConvexSpheropolygon",
       "Circle", "Ellipse", "Sphere", "Ellipsoid"]
# a second base per class where absolute tolerances could hide: the same wedge in nanometres
BASE2 = {"ConvexPolyhedron": "wedge5_nano", "Polyhedron": "wedge5_nano", "ConvexSpheropolyhedron": "wedge5_r_nano",
         "Polygon": "rect_negnormal"}        # vertices clockwise about the stored normal (signed_area < 0)
BASE = {"ConvexPolyhedron": "wedge5", "Polyhedron": "wedge5", "ConvexSpheropolyhedron": "wedge5_r",
        "Polygon": "dart_cw", "ConvexPolygon": "kite", "ConvexSpheropolygon": "kite_r",
        "Circle": "circle", "Ellipse": "ellipse_ab", "Sphere": "sphere", "Ellipsoid": "ellipsoid_abc"}
FILETYPES = ["OBJ", "OFF", "STL", "PLY", "VTK", "X3D", "HTML"]


def queries(obj):
    """name -> callable(obj) for every public query, by reflection."""
    import numpy as np
    cls = type(obj)
    qs = {}
    for name in dir(cls):
        if name.startswith("_") or name in EXCLUDED or name in MUTATORS:
            continue
        attr = getattr(cls, name)
        if isinstance(attr, (property, functools.cached_property)):
            qs[name] = (lambda o, n=name: getattr(o, n))
        elif callable(attr):
            if name == "is_inside":
                def f(o):
                    c = np.asarray(me.geom(o)).reshape(-1, 3)[0] if type(o).__name__ not in me.CURVED else np.asarray(o.centroid, float)
                    pts = np.array([c, c + [0.1, 0.05, -0.02], c + [50.0, 1.0, 2.0]])
                    snap = pts.copy()
                    r = o.is_inside(pts)
                    return {"result": r, "_args_unchanged": bool(np.array_equal(pts, snap))}
                qs["is_inside(points)"] = f
            elif name == "compute_form_factor_amplitude":
                def f(o):
                    q = np.array([[0.0, 0.0, 0.0], [0.3, -0.2, 0.5], [1.0, 0.0, 0.0]])
                    snap = q.copy()
                    try:
                        r = o.compute_form_factor_amplitude(q)
                    except NotImplementedError:
                        return "NotImplementedError"
                    return {"result": r, "_args_unchanged": bool(np.array_equal(q, snap))}
                qs["compute_form_factor_amplitude(q)"] = f
            elif name == "distance_to_surface":
                def f(o):
                    a = np.array([0.0, 0.7, 2.5, -1.0, 7.0])
                    snap = a.copy()
                    try:
                        r = o.distance_to_surface(a)
                    except NotImplementedError:
                        return "NotImplementedError"
                    return {"result": r, "_args_unchanged": bool(np.array_equal(a, snap))}
                qs["distance_to_surface(angles)"] = f
            elif name == "get_face_area":
                qs["get_face_area()"] = lambda o: o.get_face_area()
                qs["get_face_area(1)"] = lambda o: o.get_face_area(1)
            elif name == "get_dihedral":
                qs["get_dihedral"] = lambda o: o.get_dihedral(0, int(o.neighbors[0][0]))
            elif name == "to_json":
                def f(o):
                    attrs = ["vertices", "centroid"] if hasattr(o, "vertices") else ["centroid"]
                    snap = list(attrs)
                    try:
                        r = o.to_json(attrs)
                    except NotImplementedError:
                        return "NotImplementedError"
                    return {"result": r, "_args_unchanged": attrs == snap}
                qs["to_json(attrs)"] = f
            elif name == "to_hoomd":
                qs["to_hoomd()"] = lambda o: o.to_hoomd()
            elif name == "save":
                for ft in FILETYPES:
                    def f(o, ft=ft):
                        d = tempfile.mkdtemp(prefix="verif-save.", dir="/var/tmp")
                        fn = os.path.join(d, "shape." + ft.lower())
                        try:
                            o.save(ft, fn)
                            with open(fn, "rb") as fh:
                                return fh.read()
                        finally:
                            import shutil
                            shutil.rmtree(d, True)
                    qs[f"save({ft})"] = f
            elif name in ("inertia_tensor",):       # Shape.inertia_tensor is declared as a method on the base class
                qs[name] = lambda o, n=name: getattr(o, n)() if callable(getattr(o, n)) else getattr(o, n)
    qs["repr"] = lambda o: repr(o)
    qs["str"] = lambda o: str(o)
    return qs


def canon(v):
    import numpy as np
    tn = type(v).__name__
    if tn in ("Sphere", "Circle"):
        return {"radius": np.asarray(float(v.radius)), "center": np.asarray(v.centroid, dtype=float)}
    if isinstance(v, dict):
        return {k: canon(x) for k, x in v.items()}
    if isinstance(v, (bytes, str, bool, int, type(None))):
        return v
    if isinstance(v, (float, np.floating, np.integer, complex)):
        return np.asarray(v)
    if isinstance(v, np.ndarray):
        return np.array(v)
    if isinstance(v, (list, tuple)):
        try:
            return np.array(v, dtype=float if not any(isinstance(x, complex) for x in v) else complex)
        except Exception:
            return [canon(x) for x in v]
    return ("opaque", tn)


_NUM = None


def _split_numbers(text):
    """Split text into (non-numeric skeleton, list of floats)."""
    import re
    global _NUM
    if _NUM is None:
        _NUM = re.compile(r"[-+]?(?:\d+\.\d*|\.\d+|\d+)(?:[eE][-+]?\d+)?")
    nums = [float(x) for x in _NUM.findall(text)]
    return _NUM.sub("#", text), nums


def same(a, b, tol=1e-12, mag=1.0):
    """Equality of canonical answers up to rounding: |a-b| <= tol * max(mag, |b|max); text is compared number by number."""
    import numpy as np
    if isinstance(a, dict) and isinstance(b, dict):
        return a.keys() == b.keys() and all(same(a[k], b[k], tol, mag) for k in a)
    if isinstance(a, list) and isinstance(b, list):
        return len(a) == len(b) and all(same(x, y, tol, mag) for x, y in zip(a, b))
    if isinstance(a, (bytes, str)) and isinstance(b, (bytes, str)) and type(a) == type(b):
        if a == b:
            return True
        ta = a.decode("utf8", "replace") if isinstance(a, bytes) else a
        tb = b.decode("utf8", "replace") if isinstance(b, bytes) else b
        sa, na = _split_numbers(ta)
        sb, nb = _split_numbers(tb)
        return sa == sb and len(na) == len(nb) and same(np.array(na), np.array(nb), tol, mag)
    if isinstance(a, np.ndarray) and isinstance(b, np.ndarray):
        if a.shape != b.shape:
            return False
        if a.size == 0:
            return True
        if a.dtype == bool or b.dtype == bool or a.dtype.kind in "iu":
            return bool(np.array_equal(a, b))
        m = max(mag, float(np.max(np.abs(b)))) if np.all(np.isfinite(b)) else 1.0
        return bool(np.all(np.isfinite(a) == np.isfinite(b)) and
                    np.all(np.abs(np.where(np.isfinite(a), a, 0) - np.where(np.isfinite(b), b, 0)) <= tol * m))
    if isinstance(a, float) and isinstance(b, float):
        return same(np.asarray(a), np.asarray(b), tol, mag)
    return type(a) == type(b) and a == b


def tol_for(name):
    # miniball (randomised, epsilon 1e-7) is behind the minimal bounding balls
    return 1e-6 if ("minimal_bounding" in name or name.startswith("bounding_")) else 1e-11


def run_query(fn, obj):
    try:
        with warnings.catch_warnings():
            warnings.simplefilter("ignore")
            return ("ok", canon(fn(obj)))
    except Exception as e:
        return ("exc", type(e).__name__)


class Held:
    """Everything the caller holds: constructor arguments, handed-out references, with byte snapshots."""

    def __init__(self, cls, basename):
        import numpy as np
        spec = me.bases(cls)[basename]
        self.cls = cls
        self.obj = me.build(cls, spec)
        self.handed = {}
        for name in ("vertices", "faces", "normals", "equations", "centroid", "center", "neighbors", "edges",
                     "simplices", "normal", "face_centroids"):
            try:
                v = getattr(self.obj, name)
            except Exception:
                continue
            if isinstance(v, np.ndarray):
                self.handed[name] = [v]
            elif isinstance(v, list) and v and isinstance(v[0], np.ndarray):
                self.handed[name] = list(v)
        self.snap = {k: [a.copy() for a in arrs] for k, arrs in self.handed.items()}
        self.mlen = float(np.max(np.abs(me.geom(self.obj)))) * 2

    def check(self):
        """Names of handed-out arrays that changed (bit-for-bit; arrays that are still the live internal array may
        differ by rounding if the shape was moved and moved back)."""
        import numpy as np
        bad = []
        for k, arrs in self.handed.items():
            for i, a in enumerate(arrs):
                s = self.snap[k][i]
                if a.shape != s.shape:
                    bad.append(k)
                    break
                if np.array_equal(a, s):
                    continue
                if a.dtype.kind == "f" and np.allclose(a, s, rtol=0, atol=1e-12 * self.mlen):
                    continue          # moved and moved back: last-digit rounding is allowed by the property
                bad.append(k)
                break
        return bad


def eval_pair(job):
    """job: cls, q1, q2 (names; q2 may be None).  Returns list of mismatches."""
    import numpy as np
    random.seed(4321)
    np.random.seed(4321)
    cls, n1, n2 = job["cls"], job["q1"], job["q2"]
    out = []

    def bad(obs, msg, tags=()):
        out.append(({"cls": cls, "obs": obs, "tags": list(tags) + [f"q1={n1}", f"q2={n2}"] + ([job["base"]] if job.get("base") else []),
                     "msg": msg}, {"job": job}))

    bname = job.get("base") or BASE[cls]
    h = Held(cls, bname)
    qs = queries(h.obj)
    if n1 not in qs or (n2 and n2 not in qs):
        return out
    base = Held(cls, bname)
    r1_0 = run_query(queries(base.obj)[n1], base.obj)            # answers on an untouched shape
    r2_0 = run_query(queries(base.obj)[n2], Held(cls, bname).obj) if n2 else None
    p0 = me.project(base.obj)          # projection of an identical, untouched shape
    r1 = run_query(qs[n1], h.obj)
    changed = h.check()
    for k in changed:
        bad(n1, f"query {n1} changed the array handed out earlier by .{k}", ["handed_out_changed", "handed=" + k])
    if isinstance(r1[1], dict) and r1[1].get("_args_unchanged") is False:
        bad(n1, f"query {n1} modified an array passed as argument", ["argument_changed"])
    if r1[0] != r1_0[0] or not same(r1[1], r1_0[1], tol_for(n1), h.mlen):
        bad(n1, f"query {n1} answers differently on two identical fresh shapes", ["nondeterministic"])
    if n2:
        r2 = run_query(qs[n2], h.obj)
        if r2[0] != r2_0[0] or not same(r2[1], r2_0[1], tol_for(n2), h.mlen):
            bad(n2, f"query {n2} answers differently after {n1} than on a fresh shape", ["answer_depends_on_history"])
        for k in h.check():
            if k not in changed:
                bad(n2, f"query {n2} (after {n1}) changed the array handed out earlier by .{k}",
                    ["handed_out_changed", "handed=" + k])
    r1b = run_query(qs[n1], h.obj)
    if r1b[0] != r1[0] or not same(r1b[1], r1[1], tol_for(n1), h.mlen):
        bad(n1, f"repeating query {n1} returns a different answer", ["not_repeatable"])
    p1 = me.project(h.obj)
    diff = me.compare(p1, p0, h.mlen)
    for name, why in diff[:4]:
        bad(name, f"public observable {name} changed after queries {n1}" + (f", {n2}" if n2 else "") + f": {why}",
            ["observable_changed"])
    return out
