"""C18: every tabulated family entry against spec/Tabulated.tla (reference table, loader protocol) plus the metric predicates
evaluated on the implementation's own vertices."""
import json
import math
import warnings

from . import tlc
from .families_eval import regular_face

warnings.filterwarnings("ignore")
CFG = ("SPECIFICATION Spec\nINVARIANT T1_Table\nINVARIANT EmitTable\nPROPERTY LoaderMonotone\nPROPERTY Idempotent\nVIEW ViewL\n"
       "CHECK_DEADLOCK FALSE\n")
FAMS = ["PlatonicFamily", "ArchimedeanFamily", "CatalanFamily", "JohnsonFamily", "PrismAntiprismFamily", "PyramidDipyramidFamily"]


def model(ctx, maxops):
    res = tlc.run("Tabulated", CFG, constants={"MaxOps": maxops}, workers=2, timeout=600)
    ctx.tlc(res, f"Tabulated reference table and loader protocol (depth {maxops})")
    if res.violated:
        ctx.violation({"cls": "spec", "obs": res.violated, "tags": ["T1"], "msg": "Tabulated.tla inconsistency"}, {"tlc": res.stdout[-2000:]})
    table = next(r for r in res.records if r.get("k") == "table")
    edges = [r for r in res.records if r.get("k") == "loader"]
    return table, edges


def entry_checks(fam_name, name, shape, expect_vef, kind):
    """kind in platonic/archimedean/catalan/johnson/other.  Returns list of (obs, msg, tags)."""
    import numpy as np
    bad = []
    if type(shape).__name__ != "ConvexPolyhedron":
        return [("class", f"{name} is a {type(shape).__name__}", [])]
    vef = (shape.num_vertices, shape.num_edges, shape.num_faces)
    if expect_vef is not None and list(vef) != list(expect_vef):
        bad.append(("counts", f"{name}: (V,E,F) = {vef}, textbook {tuple(expect_vef)}", ["counts"]))
    if vef[0] - vef[1] + vef[2] != 2 or len(np.asarray(shape.edges)) != vef[1]:
        bad.append(("counts", f"{name}: Euler characteristic / edge list inconsistent {vef}", ["euler"]))
    V = np.asarray(shape.vertices, dtype=float)
    if kind in ("platonic", "archimedean", "catalan") and abs(shape.volume - 1) > 1e-6:
        bad.append(("volume", f"{name}: volume {shape.volume!r} is not 1", ["unit_volume"]))
    if kind in ("platonic", "archimedean", "johnson", "prismantiprism", "pyramiddipyramid"):
        el = np.asarray(shape.edge_lengths, dtype=float)
        if el.max() - el.min() > 1e-5 * el.max():
            bad.append(("edge_lengths", f"{name}: edge lengths {el.min()!r}..{el.max()!r} are not all equal", ["equal_edges"]))
        for f in shape.faces:
            if not regular_face(V[np.asarray(f)], 1e-5):
                bad.append(("faces", f"{name}: a face with {len(f)} vertices is not regular", ["regular_faces"]))
                break
    if kind == "catalan":
        try:
            S = shape.insphere
            n = np.asarray(shape.normals, dtype=float)
            d = np.array([-float(np.dot(n[i], S.centroid) + shape.equations[i][3]) for i in range(shape.num_faces)])
            if not (S.radius > 0 and np.max(np.abs(d - S.radius)) < 1e-6 * S.radius):
                bad.append(("insphere", f"{name}: insphere is not tangent to every face", ["insphere"]))
        except Exception as e:
            bad.append(("insphere", f"{name}: no insphere ({type(e).__name__}: {e})", ["insphere"]))
    return bad


def run(ctx):
    import numpy as np
    from .pool import _init
    _init()
    import coxeter
    from coxeter import families as cf
    table, edges = model(ctx, 2 if ctx.tier == "quick" else 3)
    ref = {}
    for k, v in table["platonic"].items():
        ref[("PlatonicFamily", k)] = (v, "platonic")
    for e in table["archimedean"]:
        ref[("ArchimedeanFamily", e["name"])] = (e["vef"], "archimedean")
    for e in table["catalan"]:
        ref[("CatalanFamily", e["name"])] = (e["vef"], "catalan")

    def viol(cls, obs, msg, tags, detail=None):
        ctx.violation({"cls": cls, "obs": obs, "tags": tags, "msg": msg}, detail or {"entry": msg})

    shapes = {}
    for fname in FAMS:
        fam = getattr(cf, fname)
        names = list(fam.names)
        ctx.case(("family", fname), sample={"family": fname, "size": len(names), "first": names[:3]})
        if len(names) != table["sizes"][fname] or len(set(names)) != len(names):
            viol(fname, "names", f"{len(names)} names ({len(set(names))} distinct), specification says {table['sizes'][fname]}", ["size"])
        if fname in ("PlatonicFamily", "ArchimedeanFamily", "CatalanFamily"):
            want = {n for (f, n) in ref if f == fname}
            if set(names) != want:
                viol(fname, "names", f"names differ from the reference table: missing {sorted(want - set(names))}, extra {sorted(set(names) - want)}", ["names"])
        with warnings.catch_warnings():
            warnings.simplefilter("ignore")
            it = list(fam)
        if [n for n, _ in it] != names:
            viol(fname, "iteration", "iteration does not yield every name once in the order of names", ["iteration"])
        for (n, s_it) in it:
            with warnings.catch_warnings():
                warnings.simplefilter("ignore")
                s = fam.get_shape(n)
            shapes[(fname, n)] = s
            ctx.case(("entry", fname, n))
            ctx.traces += 1
            if type(s_it) is not type(s) or not np.array_equal(np.asarray(s_it.vertices), np.asarray(s.vertices)):
                viol(fname, "iteration", f"{n}: the iterated shape differs from get_shape(name)", ["iteration"])
            vef, kind = ref.get((fname, n), (None, {"JohnsonFamily": "johnson", "PrismAntiprismFamily": "prismantiprism",
                                                     "PyramidDipyramidFamily": "pyramiddipyramid"}.get(fname, "other")))
            for obs, msg, tags in entry_checks(fname, n, s, vef, kind):
                viol(fname, obs, msg, tags + [kind])
        # a second iteration after the caller modified a yielded shape must still yield the tabulated shapes
        with warnings.catch_warnings():
            warnings.simplefilter("ignore")
            first = list(fam)
            for _, sh in first[:3]:
                sh.volume = 8.0
                sh.centroid = np.array([5.0, 5.0, 5.0])
            second = list(fam)
        for (n1, a), (n2, b) in zip(first[:3], second[:3]):
            ref_s = shapes[(fname, n2)]
            if not np.allclose(np.asarray(b.vertices), np.asarray(ref_s.vertices), rtol=0, atol=1e-12):
                viol(fname, "iteration", f"{n2}: iterating again yields a shape modified by the caller of the first iteration", ["iteration", "history"])
        # unknown names of every kind of hashable key: strings, and numbers / None / tuples as a caller indexing by position would pass
        for badname in ("No Such Solid", "", "cube", 86, None, 2.5, True, ("Cube",), b"Cube"):
            try:
                fam.get_shape(badname)
                viol(fname, "get_shape", f"unknown name {badname!r} accepted", ["unknown_name"])
            except KeyError:
                pass
            except Exception as e:
                viol(fname, "get_shape", f"unknown name {badname!r} raised {type(e).__name__} instead of KeyError", ["unknown_name"])
    # the DOI repository: loader protocol transitions replayed on a fresh mapping
    from coxeter.families import _KeyedDefaultDict, _doi_shape_collection_factory
    key = lambda st: json.dumps(sorted(st))
    seen = set()
    for e in edges:
        k = (key(e["pre"]), e["ret"]["key"])
        if k in seen:
            continue
        seen.add(k)
        repo = _KeyedDefaultDict(_doi_shape_collection_factory)
        for d in e["pre"]:
            repo[d]
        before = {d: repo[d] for d in e["pre"]}
        ctx.case(("loader", k), sample={"loaded_before": e["pre"], "lookup": e["ret"]["key"], "expected": e["ret"]})
        ctx.traces += 1
        try:
            got = repo[e["ret"]["key"]]
            exc = "none"
        except KeyError:
            got, exc = None, "KeyError"
        except Exception as ex:
            got, exc = None, type(ex).__name__
        if exc != e["ret"]["exc"]:
            viol("DOI_SHAPE_REPOSITORIES", "lookup", f"lookup of {e['ret']['key']} after {e['pre']}: {exc}, specification says {e['ret']['exc']}", ["loader"])
        if sorted(repo.keys()) != sorted(e["post"]):
            viol("DOI_SHAPE_REPOSITORIES", "lookup", f"loaded set {sorted(repo.keys())}, specification says {sorted(e['post'])}", ["loader"])
        if got is not None and len(got) != e["ret"]["nfam"]:
            viol("DOI_SHAPE_REPOSITORIES", "lookup", f"{e['ret']['key']}: {len(got)} families, specification says {e['ret']['nfam']}", ["loader"])
        if got is not None and not e["ret"]["fresh"] and got is not before[e["ret"]["key"]]:
            viol("DOI_SHAPE_REPOSITORIES", "lookup", "a repeated lookup returned a different object", ["loader"])
    sci = cf.DOI_SHAPE_REPOSITORIES["10.1126/science.1220869"][0]
    names = list(sci.names)
    ctx.case(("family", "science1220869"))
    if len(names) != table["sizes"]["science1220869"] or len(set(names)) != len(names):
        viol("science1220869", "names", f"{len(names)} entries, specification says {table['sizes']['science1220869']}", ["size"])
    it = list(sci)
    if [n for n, _ in it] != names:
        viol("science1220869", "iteration", "iteration order differs from names", ["iteration"])
    src_map = {"platonic.json": "PlatonicFamily", "archimedean.json": "ArchimedeanFamily", "catalan.json": "CatalanFamily",
               "johnson.json": "JohnsonFamily", "prism_antiprism.json": "PrismAntiprismFamily",
               "pyramid_dipyramid.json": "PyramidDipyramidFamily"}
    for n, s_it in it:
        ctx.case(("entry", "science1220869", n))
        ctx.traces += 1
        s = sci.get_shape(n)
        if type(s).__name__ != "ConvexPolyhedron":
            viol("science1220869", "class", f"{n} is a {type(s).__name__}", ["class"])
            continue
        if not np.array_equal(np.asarray(s_it.vertices), np.asarray(s.vertices)):
            viol("science1220869", "iteration", f"{n}: iterated shape differs from get_shape", ["iteration"])
        meta = sci.data[n]
        fam = src_map.get(meta.get("source"))
        if fam and (fam, meta.get("name")) in shapes:
            other = shapes[(fam, meta["name"])]
            a = np.asarray(s.vertices, dtype=float)
            b = np.asarray(other.vertices, dtype=float)
            same = a.shape == b.shape and all(np.min(np.linalg.norm(b - p, axis=1)) < 1e-9 for p in a)
            if not same:
                viol("science1220869", "cross_reference", f"{n} cites {meta['source']}:{meta['name']} but its vertices differ from that entry",
                     ["cross_reference"])
        elif fam:
            viol("science1220869", "cross_reference", f"{n} cites {meta.get('source')}:{meta.get('name')} which is not an entry of {fam}", ["cross_reference"])
    for badkey in ("Z99", "", 7, None, 1.5, ("P01",)):
        try:
            sci.get_shape(badkey)
            viol("science1220869", "get_shape", f"unknown name {badkey!r} accepted", ["unknown_name"])
        except KeyError:
            pass
        except Exception as e:
            viol("science1220869", "get_shape", f"unknown name {badkey!r} raised {type(e).__name__} instead of KeyError", ["unknown_name"])
    ctx.exhaustive = True
