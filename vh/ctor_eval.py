"""C15: constructors accept valid geometry and reject invalid geometry (spec/Ctor2.tla classifier for the planar classes,
Convex3 states plus an interior point for the 3-D classes, parameter signs for curved shapes); a constructor never stores or
modifies the caller's arrays."""
import json
import warnings
from fractions import Fraction as F

from . import tlc
from .placement import Placement, fl, palette
from .polygon_driver import h
from .pool import pmap

warnings.filterwarnings("ignore")

CFG = "SPECIFICATION Spec\nINVARIANT T1_ConvexIsSimple\nINVARIANT T1_ValidIsNotInvalid\nINVARIANT Emit\nCHECK_DEADLOCK FALSE\n"


def emit(ctx, G, maxlen, minlen=3):
    res = tlc.run("Ctor2", CFG, constants={"G": G, "MinLen": minlen, "MaxLen": maxlen, "EmitOn": "TRUE"}, timeout=1500)
    ctx.tlc(res, f"Ctor2 classifier G={G} len {minlen}..{maxlen}")
    if res.violated:
        ctx.violation({"cls": "spec", "obs": res.violated, "tags": ["T1"], "msg": "classifier inconsistency in Ctor2.tla"},
                      {"tlc_tail": res.stdout[-2000:]})
    return [r for r in res.records if r.get("k") == "ctor2"]


def emit_named(ctx):
    """spec/MC_Ctor2.tla: the named many-cornered polygons with two entries exchanged, classified exactly."""
    cfg = ("SPECIFICATION SpecNamed\nINVARIANT T1_ValidIsNotInvalid\nINVARIANT Emit\nCHECK_DEADLOCK FALSE\n"
           "CONSTANTS\n G = 8\n MinLen = 3\n MaxLen = 99\n EmitOn = TRUE\n")
    res = tlc.run("MC_Ctor2", cfg, timeout=900)
    ctx.tlc(res, "MC_Ctor2: named polygons (6-16 vertices) with two entries exchanged, classified by Ctor2")
    if res.violated:
        ctx.violation({"cls": "spec", "obs": res.violated, "tags": ["T1"], "msg": "classifier inconsistency in MC_Ctor2.tla"},
                      {"tlc_tail": res.stdout[-2000:]})
    seen = {}
    for r in res.records:
        if r.get("k") == "ctor2":
            seen.setdefault(json.dumps(r["v"]), r)
    return list(seen.values())


def _internal_arrays(obj):
    import numpy as np
    out = []
    for core in (obj, getattr(obj, "_polygon", None), getattr(obj, "_polyhedron", None)):
        if core is None:
            continue
        for v in vars(core).values():
            if isinstance(v, np.ndarray):
                out.append(v)
            elif isinstance(v, list):
                out.extend(a for a in v if isinstance(a, np.ndarray))
    return out


def try_construct(ctor, args, kwargs, arrays):
    """Returns (obj or None, exception name or None, alias problems)."""
    import numpy as np
    snaps = [a.copy() for a in arrays]
    try:
        obj = ctor(*args, **kwargs)
    except Exception as e:
        mod = [i for i, (a, s) in enumerate(zip(arrays, snaps)) if not np.array_equal(a, s, equal_nan=True)]
        return None, type(e).__name__, (["modified_on_failure"] if mod else [])
    probs = []
    if any(not np.array_equal(a, s, equal_nan=True) for a, s in zip(arrays, snaps)):
        probs.append("modified")
    internal = _internal_arrays(obj)
    if any(np.shares_memory(a, b) for a in arrays for b in internal):
        probs.append("stored")
    return obj, None, probs


def eval_planar(case):
    """case: rec (Ctor2 record), pl (placement json)."""
    import numpy as np
    import coxeter
    S = coxeter.shapes
    rec = case["rec"]
    pl = Placement.from_json(case["pl"])
    seq = rec["v"]
    out = []
    unclear = 0
    tags0 = ["n%d" % len(seq)] + pl.tags()

    def bad(cls, obs, msg, tags=()):
        out.append(({"cls": cls, "obs": obs, "tags": tags0 + list(tags), "msg": msg}, {"case": case, "cls": cls}))

    flat = pl.is_identity_rotation and not pl.t[2]
    v3 = np.array(fl(pl.points([(p[0], p[1], 0) for p in seq])), dtype=float)
    variants = [("3d", v3)]
    if flat:
        variants.append(("2d", v3[:, :2].copy()))
    nrm = np.array([float(x) for x in pl.rot([0, 0, 1])])
    for vname, arr in variants:
        # ---- Polygon
        for nopt in ("default", "explicit"):
            a = arr.copy()
            nn = nrm.copy() * 2.0
            obj, exc, probs = try_construct(S.Polygon, (a,), {"normal": nn} if nopt == "explicit" else {}, [a, nn])
            verdict = rec["pv"]
            if probs:
                bad("Polygon", "construct_args", f"constructor {probs} the caller's arrays", probs)
            if verdict == "unclear":
                unclear += 1
            elif exc not in (None, "ValueError"):
                bad("Polygon", "construct", f"raised {exc} instead of ValueError for {seq}", ["wrong_exception", verdict])
            elif verdict == "valid" and exc is not None:
                bad("Polygon", "construct", f"simple polygon {seq} rejected", ["valid_rejected", vname, nopt])
            elif verdict == "invalid" and exc is None:
                bad("Polygon", "construct", f"invalid vertex cycle {seq} accepted", ["invalid_accepted", vname, nopt,
                                                                                   "dup" if len({tuple(p) for p in seq}) < len(seq) else "crossing"])
            elif verdict == "unclear":
                unclear += 1
        # ---- ConvexPolygon / ConvexSpheropolygon
        for cls, extra in (() if case.get("only_polygon") else (("ConvexPolygon", ()), ("ConvexSpheropolygon", (0.5,)))):
            for nopt in ("default", "explicit"):
                a = arr.copy()
                nn = nrm.copy()
                kw = {"normal": nn} if nopt == "explicit" else {}
                obj, exc, probs = try_construct(getattr(S, cls), (a,) + extra, kw, [a, nn])
                verdict = rec["cv"]
                if probs:
                    bad(cls, "construct_args", f"constructor {probs} the caller's arrays", probs)
                if exc not in (None, "ValueError"):
                    if verdict != "unclear":
                        bad(cls, "construct", f"raised {exc} instead of ValueError for {seq}", ["wrong_exception", verdict])
                    else:
                        unclear += 1
                elif verdict == "valid" and exc is not None:
                    bad(cls, "construct", f"point set in convex position {seq} rejected", ["valid_rejected", vname, nopt])
                elif verdict == "invalid" and exc is None:
                    bad(cls, "construct", f"point set {seq} with an interior or duplicate point accepted", ["invalid_accepted", vname, nopt])
                elif verdict == "unclear":
                    unclear += 1
                elif verdict == "valid":
                    # stored order: counter-clockwise about the normal, starting at input vertex 0
                    ccw = rec["ccw"]
                    o = (seq[1][0] - seq[0][0]) * (seq[2][1] - seq[0][1]) - (seq[1][1] - seq[0][1]) * (seq[2][0] - seq[0][0])
                    want = ccw if (nopt == "explicit" or o > 0) else [ccw[0]] + ccw[:0:-1]
                    wv = np.array(fl(pl.points([(p[0], p[1], 0) for p in want])), dtype=float)
                    got = np.asarray(obj.vertices, dtype=float)
                    if got.shape != wv.shape or not np.allclose(got, wv, rtol=0, atol=1e-9 * (1 + float(np.max(np.abs(wv))))):
                        bad(cls, "vertices", f"stored order is not the counter-clockwise cycle from input vertex 0 for {seq}",
                            ["order", vname, nopt])
    # ---- non-planar variants of valid polygons: one vertex (index >= 3) off the plane
    if rec["pv"] == "valid" and len(seq) >= 4:
        size = float(np.max(np.linalg.norm(v3 - v3.mean(axis=0), axis=1)))
        for frac, expect_ok in ((0.0, True), (0.011, False), (0.05, False), (-0.3, False)):
            a = v3.copy()
            a[3] += nrm * frac * size
            obj, exc, probs = try_construct(S.Polygon, (a,), {}, [a])
            if exc not in (None, "ValueError"):
                bad("Polygon", "construct", f"raised {exc} for an off-plane vertex", ["wrong_exception"])
            elif expect_ok and exc is not None:
                bad("Polygon", "construct", "planar polygon rejected", ["valid_rejected"])
            elif not expect_ok and exc is None:
                bad("Polygon", "construct", f"vertex {frac:+.3f} sizes off the plane accepted for {seq}", ["nonplanar_accepted"])
    return out, {"unclear": unclear}


def eval_solid(case):
    """case: rec (Convex3 record), pl; valid set, set + interior point, set + duplicate; spheropolyhedron radii."""
    import numpy as np
    import coxeter
    S = coxeter.shapes
    rec = case["rec"]
    pl = Placement.from_json(case["pl"])
    out = []
    tags0 = ["nv%d" % len(rec["v"])] + pl.tags()

    def bad(cls, obs, msg, tags=()):
        out.append(({"cls": cls, "obs": obs, "tags": tags0 + list(tags), "msg": msg}, {"case": case, "cls": cls}))

    pts = [[F(x) for x in p] for p in rec["v"]]
    cen = [F(x, 4 * rec["vol6"]) for x in rec["cen24"]]          # exact centroid: strictly inside
    good = np.array(fl(pl.points(pts)), dtype=float)
    inner = np.array(fl(pl.points(pts[:2] + [cen] + pts[2:])), dtype=float)
    dup = np.array(fl(pl.points(pts + [pts[1]])), dtype=float)
    for cls, extra in (("ConvexPolyhedron", ()), ("ConvexSpheropolyhedron", (0.25,))):
        for name, arr, ok in (("valid", good, True), ("interior_point", inner, False), ("duplicate_point", dup, False)):
            a = arr.copy()
            obj, exc, probs = try_construct(getattr(S, cls), (a,) + extra, {}, [a])
            if probs:
                bad(cls, "construct_args", f"constructor {probs} the caller's arrays", probs)
            if exc not in (None, "ValueError"):
                bad(cls, "construct", f"raised {exc} instead of ValueError ({name})", ["wrong_exception", name])
            elif ok and exc is not None:
                bad(cls, "construct", "vertex set in convex position rejected", ["valid_rejected"])
            elif not ok and exc is None:
                bad(cls, "construct", f"vertex set with {name} accepted", ["invalid_accepted", name])
            if ok and obj is not None:
                # a later in-place mutator must not reach the caller's array either
                snap = a.copy()
                if cls == "ConvexPolyhedron":
                    obj.centroid = np.array([1.0, 2.0, 3.0])
                    obj.volume = obj.volume * 2
                else:
                    obj.volume = obj.volume * 2
                if not np.array_equal(a, snap):
                    bad(cls, "construct_args", "a later mutator changed the caller's vertex array", ["stored"])
    for r, ok in ((0.0, True), (1e-3, True), (-1e-3, False), (-1.0, False)):
        a = good.copy()
        obj, exc, probs = try_construct(S.ConvexSpheropolyhedron, (a, r), {}, [a])
        if (exc is None) != ok or exc not in (None, "ValueError"):
            bad("ConvexSpheropolyhedron", "construct", f"rounding radius {r}: outcome {exc}", ["radius_sign"])
    return out, {}


def eval_curved(case):
    import numpy as np
    import coxeter
    S = coxeter.shapes
    out = []
    vals = case["vals"]

    def bad(cls, obs, msg, tags=()):
        out.append(({"cls": cls, "obs": obs, "tags": list(tags), "msg": msg}, {"case": case, "cls": cls}))

    for cls, nax in (("Circle", 1), ("Ellipse", 2), ("Sphere", 1), ("Ellipsoid", 3)):
        for k in range(nax):
            for badv in (0.0, -vals[0], float("nan"), -0.0):
                ax = list(vals[:nax])
                ax[k] = badv
                c = np.array([1.0, -2.0, 3.0])
                obj, exc, probs = try_construct(getattr(S, cls), tuple(ax) + (c,), {}, [c])
                if exc != "ValueError":
                    bad(cls, "construct", f"axes {ax}: expected ValueError, got {exc}", ["nonpositive_accepted" if exc is None else "wrong_exception"])
        c = np.array([1.0, -2.0, 3.0])
        obj, exc, probs = try_construct(getattr(S, cls), tuple(vals[:nax]) + (c,), {}, [c])
        if exc is not None:
            bad(cls, "construct", f"positive axes {vals[:nax]} rejected: {exc}", ["valid_rejected"])
        elif probs:
            bad(cls, "construct_args", f"constructor {probs} the caller's centre array", probs)
        else:
            c[0] = 99.0                   # the caller changes its own array afterwards
            if float(np.asarray(obj.centroid)[0]) == 99.0:
                bad(cls, "construct_args", "the shape follows later changes of the caller's centre array", ["stored"])
    for cls, args in (("ConvexSpheropolygon", (np.array([[0.0, 0], [2, 0], [0, 3]]),)),):
        for r, ok in ((0.0, True), (0.3, True), (-0.3, False)):
            obj, exc, probs = try_construct(getattr(S, cls), args + (r,), {}, [args[0]])
            if (exc is None) != ok or exc not in (None, "ValueError"):
                bad(cls, "construct", f"rounding radius {r}: outcome {exc}", ["radius_sign"])
    return out, {}
