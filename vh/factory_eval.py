"""T2 replay of spec/Factory.tla: every history of Get / Mutate operations against every shape factory of coxeter.families.
After each step every un-mutated handle must still equal the definition of its key (the vertex set of the first, untouched
answer for that key, which C17/C18 bind to the exact shapes) and every mutated handle must show exactly its own mutation."""
import json

from . import tlc

CFG = ("SPECIFICATION Spec\nPROPERTY GetLeavesHandlesAlone\nPROPERTY MutateIsLocal\nINVARIANT Emit\nCHECK_DEADLOCK FALSE\n"
       "CONSTANTS\n Keys = {1, 2}\n MaxOps = %d\n")


def factories():
    import coxeter.families as f
    doi = "10.1126/science.1220869"
    return {
        "Family323Plus": (lambda k: f.Family323Plus.get_shape(*[(1.2, 2.5), (2.0, 1.5)][k - 1]), False),
        "Family423": (lambda k: f.Family423.get_shape(*[(1.3, 2.4), (1.8, 2.9)][k - 1]), False),
        "Family523": (lambda k: f.Family523.get_shape(*[(1.2, 2.8), (1.1, 2.7)][k - 1]), True),
        "TruncatedTetrahedronFamily": (lambda k: f.TruncatedTetrahedronFamily.get_shape([0.3, 0.7][k - 1]), False),
        "RegularNGonFamily": (lambda k: f.RegularNGonFamily.get_shape([5, 8][k - 1]), False),
        "UniformPrismFamily": (lambda k: f.UniformPrismFamily.get_shape([3, 7][k - 1]), False),
        "UniformAntiprismFamily": (lambda k: f.UniformAntiprismFamily.get_shape([4, 9][k - 1]), False),
        "UniformPyramidFamily": (lambda k: f.UniformPyramidFamily.get_shape([3, 5][k - 1]), False),
        "UniformDipyramidFamily": (lambda k: f.UniformDipyramidFamily.get_shape([4, 5][k - 1]), False),
        "PlatonicFamily": (lambda k: f.PlatonicFamily.get_shape(["Cube", "Icosahedron"][k - 1]), False),
        "ArchimedeanFamily": (lambda k: f.ArchimedeanFamily.get_shape(["Cuboctahedron", "Truncated Cube"][k - 1]), False),
        "CatalanFamily": (lambda k: f.CatalanFamily.get_shape(["Rhombic Dodecahedron", "Triakis Tetrahedron"][k - 1]), False),
        "JohnsonFamily": (lambda k: f.JohnsonFamily.get_shape(["Square Pyramid", "Augmented Dodecahedron"][k - 1]), False),
        "PrismAntiprismFamily": (lambda k: f.PrismAntiprismFamily.get_shape(["Square Antiprism", "Triangular Antiprism"][k - 1]), False),
        "PyramidDipyramidFamily": (lambda k: f.PyramidDipyramidFamily.get_shape(["Square Dipyramid", "Triangular Dipyramid"][k - 1]), False),
        "DOI science.1220869": (lambda k: f.DOI_SHAPE_REPOSITORIES[doi][0].get_shape(["P01", "J27"][k - 1]), False),
    }


def _vset(shape):
    import numpy as np
    v = np.asarray(shape.vertices, dtype=float)
    return v[np.lexsort(np.round(v, 9).T[::-1])]


def eval_history(job):
    import numpy as np
    from .pool import _init
    _init()
    get, _slow = factories()[job["factory"]]
    out = []

    def bad(obs, msg, step, tags=()):
        ops = [f"{h['op']}({h['key'] if h['op'] == 'get' else 'handle %d' % h['h']})" for h in job["hist"][:step + 1]]
        out.append(({"cls": job["factory"], "obs": obs, "tags": list(tags), "msg": f"after {ops}: {msg}"}, {"job": job, "step": step}))

    definition = {}
    for k in (1, 2):
        try:
            definition[k] = _vset(get(k)).copy()          # the untouched first answer
        except Exception as e:
            return [({"cls": job["factory"], "obs": "get_shape", "tags": ["raised"], "msg": f"key {k}: {type(e).__name__}: {e}"}, {"job": job})]
    handles = []            # (shape, key, mutated, expected vertex set)
    for step, h in enumerate(job["hist"]):
        if h["op"] == "get":
            try:
                s = get(h["key"])
            except Exception as e:
                bad("get_shape", f"raised {type(e).__name__}: {e}", step, ["raised"])
                return out
            handles.append([s, h["key"], False, definition[h["key"]]])
        else:
            s = handles[h["h"] - 1][0]
            lam = 1.5
            if hasattr(s, "volume"):
                s.volume = float(s.volume) * lam ** 3
            else:
                s.area = float(s.area) * lam ** 2
            s.centroid = np.asarray(s.centroid, dtype=float) + np.array([0.25, -0.5, 0.0])
            handles[h["h"] - 1][2] = True
            handles[h["h"] - 1][3] = _vset(s).copy()
        for i, (s, k, mutated, want) in enumerate(handles):
            got = _vset(s)
            scale = float(np.max(np.abs(want))) + 1.0
            if got.shape != want.shape or not np.allclose(got, want, rtol=0, atol=1e-12 * scale):
                if mutated:
                    bad("handle", f"handle {i + 1} (mutated by the client) changed again without being touched", step, ["shared_object"])
                elif i == len(handles) - 1 and h["op"] == "get":
                    bad("get_shape", f"the shape returned for key {k} is not the shape the key defines (it depends on the history)", step,
                        ["history_dependent"])
                else:
                    bad("handle", f"handle {i + 1} for key {k} changed although the client never touched it", step, ["shared_object"])
                return out
    return out


def run(ctx, which=None, maxops=4):
    from .pool import pmap
    res = tlc.run("Factory", CFG % maxops, workers=2, timeout=300)
    ctx.tlc(res, f"Factory.tla: all histories of {maxops} Get/Mutate operations over two keys")
    if res.violated:
        ctx.violation({"cls": "spec", "obs": res.violated, "tags": ["T1"], "msg": "Factory.tla inconsistency"}, {"tlc": res.stdout[-2000:]})
    hists = sorted({json.dumps(r["hist"]) for r in res.records if r.get("k") == "factory"})
    hists = [json.loads(x) for x in hists]
    from .pool import _init
    _init()
    jobs = []
    for name, (_, slow) in factories().items():
        if which and name not in which:
            continue
        hs = hists
        if slow or ctx.tier == "quick":
            # the histories that contain get, mutate, get of one key come first; slow factories replay a few of them
            def pat(hh):
                return any(a["op"] == "get" and b["op"] == "mutate" and b["h"] == a["h"] and any(c["op"] == "get" and c["key"] == a["key"] for c in hh[j + 1:])
                           for i, a in enumerate(hh) for j, b in enumerate(hh) if j > i)
            hs = [x for x in hists if pat(x)][:: (6 if slow else 2)][: (4 if slow else 40)]
        jobs += [{"factory": name, "hist": x} for x in hs]
    for job, mism in zip(jobs, pmap(eval_history, jobs, chunksize=2)):
        ctx.case(("factory", job["factory"], json.dumps(job["hist"])), nontrivial=True,
                 sample={"factory": job["factory"], "history": job["hist"]})
        ctx.traces += 1
        for sig, detail in mism:
            ctx.violation(sig, detail)
    return len(jobs)
