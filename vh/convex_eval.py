"""T2 replay of Convex3.tla records into coxeter.shapes.ConvexPolyhedron (C01, C07 numeric part, C05 convex part)."""
import math
import random
import warnings
from fractions import Fraction as F

from . import placement as plc
from .placement import Placement, fl
from .runner import TAU

warnings.filterwarnings("ignore")


def expected(rec, pl):
    s = pl.s
    V0 = F(rec["vol6"], 6)
    c0 = [F(x, 4 * rec["vol6"]) for x in rec["cen24"]]
    P0 = [[F(x, 120) for x in row] for row in rec["mom120"]]
    m1 = [V0 * x for x in c0]
    R = pl.R
    t = pl.t
    RP = pl.tensor(P0)
    Rm = pl.rot(m1)
    P = [[s ** 3 * (s * s * RP[i][j] + s * (Rm[i] * t[j] + t[i] * Rm[j]) + V0 * t[i] * t[j]) for j in range(3)]
         for i in range(3)]
    tr = P[0][0] + P[1][1] + P[2][2]
    inertia = [[(tr if i == j else 0) - P[i][j] for j in range(3)] for i in range(3)]
    facets = []
    for f in rec["facets"]:
        n = pl.rot(f["n"])
        nn = math.sqrt(float(sum(x * x for x in f["n"])))
        # plane: n.x = s*off + n.t  (n rotated, not normalised)
        off = s * f["off"] + sum(n[i] * t[i] for i in range(3))
        facets.append(dict(cyc=f["cyc"], n=n, nn=nn, off=off,
                           area=float(s * s) * math.sqrt(f["a2sq"]) / 2,
                           centroid=pl.point([F(x, f["cden"]) for x in f["cnum"]])))
    return dict(volume=s ** 3 * V0, centroid=pl.point(c0), inertia=inertia, facets=facets,
                area=math.fsum(f["area"] for f in facets))


def convex_tags(rec, pl):
    degs = sorted({len(f["cyc"]) for f in rec["facets"]})
    tags = ["nv%d" % len(rec["v"]), "nf%d" % len(rec["facets"])]
    tags.append("all_triangles" if degs == [3] else "has_polygon_facets")
    return tags + pl.tags()


def is_rotation_of(a, b):
    if len(a) != len(b):
        return False
    if not a:
        return True
    try:
        k = b.index(a[0])
    except ValueError:
        return False
    return a == b[k:] + b[:k]


def eval_case(case):
    """case: rec, pl, perm (list or None), which subset of {'measures','structure','inside'}"""
    import numpy as np
    import coxeter
    rec = case["rec"]
    pl = Placement.from_json(case["pl"])
    which = case.get("which", ["measures"])
    tags = convex_tags(rec, pl)
    n = len(rec["v"])
    perm = case.get("perm") or list(range(n))     # new position i holds old vertex perm[i]
    if perm != list(range(n)):
        tags.append("permuted")
    inv = [0] * n
    for i, p in enumerate(perm):
        inv[p] = i
    out = []
    maxrel = {}
    cls = "ConvexPolyhedron"

    def bad(obs, msg, exp=None, got=None):
        out.append(({"cls": cls, "obs": obs, "tags": tags, "msg": msg},
                    {"case": case, "obs": obs, "expected": fl(exp) if exp is not None else None, "observed": got}))

    base = pl.points(rec["v"])
    verts = np.array(fl([base[p] for p in perm]), dtype=float)
    snap = verts.copy()
    try:
        P = coxeter.shapes.ConvexPolyhedron(verts)
    except Exception as e:
        bad("construct", f"vertex set in convex position rejected: {type(e).__name__}: {e}")
        return out, {"maxrel": maxrel}
    if not np.array_equal(snap, verts):
        bad("construct_args", "constructor modified the caller's vertex array")
    ex = expected(rec, pl)
    diam = float(np.max(np.linalg.norm(verts[:, None, :] - verts[None, :, :], axis=-1)))
    far = float(np.max(np.linalg.norm(verts, axis=-1)))
    mlen = diam + far

    def close(kind, e, o, mag):
        e = np.asarray(fl(e), dtype=float).ravel()
        try:
            o = np.asarray(o, dtype=float).ravel()
        except Exception:
            return False
        if e.shape != o.shape or not np.all(np.isfinite(o)):
            return False
        mag = abs(float(mag)) or 1.0
        w = float(np.max(np.abs(e - o))) / mag if e.size else 0.0
        if w <= TAU[kind]:
            maxrel[kind] = max(maxrel.get(kind, 0.0), w)
            return True
        return False

    # map implementation faces to spec facets by vertex set (in old numbering)
    try:
        impl_faces = [[perm[int(i)] for i in f] for f in P.faces]
    except Exception as e:
        bad("faces", f"faces unreadable: {e}")
        return out, {"maxrel": maxrel}
    spec_by_set = {frozenset(f["cyc"]): k for k, f in enumerate(ex["facets"])}
    face_to_spec = [spec_by_set.get(frozenset(f)) for f in impl_faces]

    if "measures" in which:
        if not np.array_equal(np.asarray(P.vertices), snap):
            bad("vertices", "vertices differ from the input points", snap.tolist(), np.asarray(P.vertices).tolist())
        checks = [
            ("volume", "volume", ex["volume"], lambda: P.volume, float(ex["volume"])),
            ("surface_area", "area", ex["area"], lambda: P.surface_area, ex["area"]),
            ("centroid", "point", ex["centroid"], lambda: P.centroid, mlen),
            ("center", "point", ex["centroid"], lambda: P.center, mlen),
            ("inertia_tensor", "inertia", ex["inertia"], lambda: P.inertia_tensor,
             math.sqrt(sum(float(x) ** 2 for r in ex["inertia"] for x in r))),
        ]
        for obs, kind, e, getter, mag in checks:
            try:
                o = getter()
            except Exception as exn:
                bad(obs, f"raised {type(exn).__name__}: {exn}", e)
                continue
            if not close(kind, e, o, mag):
                bad(obs, "value differs from the exact integral", e, np.asarray(o, dtype=float).tolist())
        if None in face_to_spec or len(impl_faces) != len(ex["facets"]) or len(set(face_to_spec)) != len(face_to_spec):
            bad("faces", "faces are not the facets of the convex hull (as vertex sets)",
                [f["cyc"] for f in ex["facets"]], impl_faces)
        else:
            try:
                fa = np.asarray(P.get_face_area(), dtype=float)
                want = [ex["facets"][k]["area"] for k in face_to_spec]
                if not close("area", want, fa, max(want)):
                    bad("get_face_area", "per-face areas differ", want, fa.tolist())
                j = len(impl_faces) // 2
                one = float(np.asarray(P.get_face_area(j)))
                if not close("area", want[j], one, max(want)):
                    bad("get_face_area_int", "get_face_area(i) differs", want[j], one)
                lst = np.asarray(P.get_face_area([j, 0]), dtype=float)
                if not close("area", [want[j], want[0]], lst, max(want)):
                    bad("get_face_area_list", "get_face_area([i,j]) differs", [want[j], want[0]], lst.tolist())
                tot = float(P.get_face_area("total"))
                if not close("area", ex["area"], tot, ex["area"]):
                    bad("get_face_area_total", "get_face_area('total') differs", ex["area"], tot)
            except Exception as exn:
                bad("get_face_area", f"raised {type(exn).__name__}: {exn}")
            try:
                fc = np.asarray(P.face_centroids, dtype=float)
                want = [ex["facets"][k]["centroid"] for k in face_to_spec]
                if not close("point", want, fc, mlen):
                    bad("face_centroids", "face centroids differ from the exact centroids", want, fc.tolist())
            except Exception as exn:
                bad("face_centroids", f"raised {type(exn).__name__}: {exn}")

    if "structure" in which:
        nf = len(ex["facets"])
        if None in face_to_spec or len(impl_faces) != nf or len(set(face_to_spec)) != len(face_to_spec):
            bad("faces", "faces are not the facets of the convex hull (as vertex sets)",
                [f["cyc"] for f in ex["facets"]], impl_faces)
        else:
            for fi, k in enumerate(face_to_spec):
                sf = ex["facets"][k]
                if not is_rotation_of(impl_faces[fi], sf["cyc"]):
                    bad("faces_order", f"face {fi} is not listed counter-clockwise as seen from outside",
                        sf["cyc"], impl_faces[fi])
                    break
            eq = np.asarray(P.equations, dtype=float)
            nr = np.asarray(P.normals, dtype=float)
            for fi, k in enumerate(face_to_spec):
                sf = ex["facets"][k]
                un = [float(x) / sf["nn"] for x in sf["n"]]
                d = -float(sf["off"]) / sf["nn"]
                if not close("dimensionless", un, eq[fi, :3], 1.0) or not close("dimensionless", un, nr[fi], 1.0):
                    bad("equations_normal", f"plane normal of face {fi} is not the unit outward normal", un,
                        eq[fi].tolist())
                    break
                if not close("length", d, eq[fi, 3], mlen):
                    bad("equations_offset", f"plane offset of face {fi} differs", d, eq[fi].tolist())
                    break
            # neighbours: two faces are neighbours iff they share an edge (from the spec's edge list)
            sedges = {frozenset(e) for e in rec["edges"]}
            def fedges(c):
                return {frozenset((c[i], c[(i + 1) % len(c)])) for i in range(len(c))}
            spec_adj = [[j for j in range(nf) if j != i and
                         fedges(ex["facets"][face_to_spec[i]]["cyc"]) & fedges(ex["facets"][face_to_spec[j]]["cyc"])]
                        for i in range(nf)]
            nb = [sorted(int(x) for x in a) for a in P.neighbors]
            if nb != [sorted(a) for a in spec_adj]:
                bad("neighbors", "neighbour lists are not 'share an edge'", spec_adj, nb)
            try:
                ed = [tuple(int(x) for x in e) for e in np.asarray(P.edges)]
                want = sorted(tuple(sorted((inv[a], inv[b]))) for a, b in rec["edges"])
                if ed != want:
                    bad("edges", "edge list is not each edge once as (i<j), sorted", want, ed)
                if P.num_edges != len(want):
                    bad("num_edges", "num_edges disagrees with the edge count", len(want), P.num_edges)
                if len(np.asarray(P.edge_vectors)) != len(want):
                    bad("edge_vectors", "edge_vectors length differs", len(want), len(np.asarray(P.edge_vectors)))
            except Exception as exn:
                bad("edges", f"raised {type(exn).__name__}: {exn}")
            if P.num_faces != nf or P.num_vertices != n:
                bad("num_faces", "num_faces/num_vertices wrong", [nf, n], [P.num_faces, P.num_vertices])
            # simplices triangulate the faces, outward oriented
            try:
                simp = [[perm[int(i)] for i in s] for s in np.asarray(P.simplices)]
                ok = True
                area_by_face = [0.0] * nf
                for s_ in simp:
                    host = [k for k, f in enumerate(ex["facets"]) if set(s_) <= set(f["cyc"])]
                    if len(host) != 1:
                        ok = False
                        break
                    a, b, c = (np.array(fl(base[i])) for i in s_)
                    cr = np.cross(b - a, c - a)
                    nvec = np.array(fl(ex["facets"][host[0]]["n"]))
                    if np.dot(cr, nvec) <= 0:
                        ok = False
                        break
                    area_by_face[host[0]] += np.linalg.norm(cr) / 2
                if ok:
                    want = [f["area"] for f in ex["facets"]]
                    ok = close("area", want, area_by_face, max(want))
                if not ok:
                    bad("simplices", "simplices do not triangulate the facets with outward orientation", None, simp)
            except Exception as exn:
                bad("simplices", f"raised {type(exn).__name__}: {exn}")
    if "inside" in which and "q" in rec:
        q, mem = rec["q"], rec["mem"]
        keep = [i for i, m in enumerate(mem) if m != 2]
        pts = np.array(fl(pl.points([q[i] for i in keep])), dtype=float)
        want = np.array([mem[i] == 1 for i in keep])
        targets = [("ConvexPolyhedron", P)]
        try:
            targets.append(("Polyhedron", coxeter.shapes.Polyhedron(verts, [np.array(f) for f in P.faces],
                                                                    faces_are_convex=True)))
        except Exception as exn:
            bad("construct_polyhedron", f"Polyhedron copy of a convex solid rejected: {exn}")
        try:
            targets.append(("ConvexSpheropolyhedron_r0", coxeter.shapes.ConvexSpheropolyhedron(verts, 0.0)))
        except Exception as exn:
            bad("construct_spheropolyhedron", f"ConvexSpheropolyhedron(r=0) rejected: {exn}")
        for name, obj in targets:
            psnap = pts.copy()
            try:
                got = np.asarray(obj.is_inside(pts))
                if got.shape != want.shape:
                    out.append(({"cls": name, "obs": "is_inside", "tags": tags,
                                 "msg": f"batch result shape {got.shape}, expected {want.shape}"},
                                {"case": case, "obs": "is_inside"}))
                elif not np.array_equal(got.astype(bool), want):
                    j = int(np.nonzero(got.astype(bool) != want)[0][0])
                    out.append(({"cls": name, "obs": "is_inside", "tags": tags,
                                 "msg": f"point {pts[j].tolist()} (lattice {q[keep[j]]}) reported {bool(got[j])}, "
                                        f"exact membership {bool(want[j])}"},
                                {"case": case, "obs": "is_inside", "expected": want.tolist(), "observed": got.tolist()}))
                if not np.array_equal(pts, psnap):
                    out.append(({"cls": name, "obs": "is_inside_args", "tags": tags,
                                 "msg": "is_inside modified the caller's points"}, {"case": case}))
                for j in range(0, len(keep), 41):
                    g1 = np.asarray(obj.is_inside(pts[j]))
                    if g1.shape != (1,) or bool(g1[0]) != bool(want[j]):
                        out.append(({"cls": name, "obs": "is_inside_single", "tags": tags,
                                     "msg": f"single-point call on {pts[j].tolist()} gave {g1.tolist()}, exact {bool(want[j])}"},
                                    {"case": case, "obs": "is_inside_single"}))
                        break
            except Exception as exn:
                out.append(({"cls": name, "obs": "is_inside", "tags": tags + ["raised"],
                             "msg": f"raised {type(exn).__name__}: {str(exn)[:200]}"}, {"case": case, "obs": "is_inside"}))
    return out, {"maxrel": maxrel, "unclear": sum(1 for m in rec.get("mem", []) if m == 2) if "inside" in which else 0}


def eval_copy(case):
    """C02: the general Polyhedron built from the vertices and the outward counter-clockwise facet cycles of a convex lattice
    polytope (a 'Polyhedron copy of a convex solid': faces with 3..n corners, trapezoids, kites, ...) has the exact measures."""
    import numpy as np
    import coxeter
    rec = case["rec"]
    pl = Placement.from_json(case["pl"])
    tags = convex_tags(rec, pl) + ["polyhedron_copy"]
    out = []
    maxrel = {}

    def bad(obs, msg, exp=None, got=None):
        out.append(({"cls": "Polyhedron", "obs": obs, "tags": tags, "msg": msg},
                    {"case": case, "obs": obs, "expected": fl(exp) if exp is not None else None, "observed": got}))

    verts = np.array(fl(pl.points(rec["v"])), dtype=float)
    ex = expected(rec, pl)
    k = case.get("shift", 0)
    faces = [list(f["cyc"][(k + i) % len(f["cyc"]):]) + list(f["cyc"][:(k + i) % len(f["cyc"])]) for i, f in enumerate(rec["facets"])]
    try:
        P = coxeter.shapes.Polyhedron(verts.copy(), [np.array(f) for f in faces], faces_are_convex=True)
    except Exception as e:
        bad("construct", f"valid closed mesh rejected: {type(e).__name__}: {e}")
        return out, {"maxrel": maxrel}
    diam = float(np.max(np.linalg.norm(verts[:, None, :] - verts[None, :, :], axis=-1)))
    mlen = diam + float(np.max(np.linalg.norm(verts, axis=-1)))
    want_fa = [f["area"] for f in ex["facets"]]
    checks = [
        ("volume", "volume", ex["volume"], lambda: P.volume, float(ex["volume"])),
        ("surface_area", "area", ex["area"], lambda: P.surface_area, ex["area"]),
        ("get_face_area", "area", want_fa, lambda: P.get_face_area(), max(want_fa)),
        ("centroid", "point", ex["centroid"], lambda: P.centroid, mlen),
        ("inertia_tensor", "inertia", ex["inertia"], lambda: P.inertia_tensor, math.sqrt(sum(float(x) ** 2 for r in ex["inertia"] for x in r))),
    ]
    for obs, kind, e, getter, mag in checks:
        try:
            o = np.asarray(getter(), dtype=float).ravel()
        except Exception as exn:
            bad(obs, f"raised {type(exn).__name__}: {exn}", e)
            continue
        ee = np.asarray(fl(e), dtype=float).ravel()
        w = float(np.max(np.abs(ee - o))) / (abs(float(mag)) or 1.0) if ee.shape == o.shape and np.all(np.isfinite(o)) else float("inf")
        if w > TAU[kind]:
            bad(obs, "value differs from the exact integral", e, o.tolist())
        else:
            maxrel[kind] = max(maxrel.get(kind, 0.0), w)
    return out, {"maxrel": maxrel}
