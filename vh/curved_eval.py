"""T2 replay of Curved.tla records into Circle / Ellipse / Sphere / Ellipsoid (C10, curved parts of C05/C06/C13/C14)."""
import itertools
import math
import warnings
from fractions import Fraction as F

from . import tlc
from .pool import pmap
from .runner import TAU
from .terms import PI, _fl, ev, make_env

warnings.filterwarnings("ignore")

CFG = """INIT Init
NEXT Next
VIEW ViewP
INVARIANT Emit
CHECK_DEADLOCK FALSE
"""


def emit(ctx, tier, classes=None):
    q = tier == "quick"
    consts = {"Bases": "BasesQ" if q else "BasesT", "Eps": "EpsQ" if q else "EpsT",
              "Centres": "CentresQ" if q else "CentresT", "Scales": "ScalesQ" if q else "ScalesT",
              "CentresE": "CentresQ", "ScalesE": "ScalesQ", "BasesE": "BasesQ", "EpsE": "EpsQ" if q else "EpsT"}
    cfg = CFG + "CONSTANTS\n" + "\n".join(f" {k} <- {v}" for k, v in consts.items()) + "\n SeriesN = 60\n"
    cfg += " Classes <- ClassesAll\n" if not classes else " Classes = {" + ", ".join('"%s"' % c for c in classes) + "}\n"
    if not q:
        # the full product is large; thorough runs it for the 1- and 2-parameter classes and samples ellipsoids
        pass
    res = tlc.run("MC_Curved", cfg, timeout=1500)
    return res


def build(rec):
    import coxeter
    env0 = make_env(rec["env"])
    ax = [float(env0[k]) for k in ("a1", "a2", "a3") if k in env0]
    c = [float(env0["xc"]), float(env0["yc"]), float(env0["zc"])]
    # the expectations are evaluated for the numbers the implementation actually receives: the doubles nearest to the
    # spec's rationals, taken as exact rationals (matters for near-ties 1 + 1e-15, whose eccentricity is ill-conditioned)
    env = make_env([[k, F(float(v))] for k, v in ((n, env0[n]) for n in ("a1", "a2", "a3", "xc", "yc", "zc") if n in env0)]
                   + [p for p in rec["env"] if p[0] not in ("a1", "a2", "a3", "xc", "yc", "zc")])
    cls = rec["cls"]
    S = coxeter.shapes
    if cls == "Circle":
        return S.Circle(ax[0], c), env, ax, c
    if cls == "Ellipse":
        return S.Ellipse(ax[0], ax[1], c), env, ax, c
    if cls == "Sphere":
        return S.Sphere(ax[0], c), env, ax, c
    return S.Ellipsoid(ax[0], ax[1], ax[2], c), env, ax, c


def curved_tags(rec):
    raw = rec["axraw"]
    tags = [rec["cls"], "sc%d" % rec["sc"]]
    if any(a["e"] for a in raw):
        tags.append("near_tie")
    vals = [F(a["n"], a["d"]) for a in raw]
    if len(vals) > 1:
        if vals == sorted(vals):
            tags.append("axes_ascending")
        elif vals == sorted(vals, reverse=True):
            tags.append("axes_descending")
        else:
            tags.append("axes_mixed")
        if len(set(vals)) < len(vals):
            tags.append("tie")
    return tags


def rec_dev(rec, env):
    return [ev(t, env) for t in rec["planar_dev"]]


def eval_measures(rec):
    import numpy as np
    out = []
    maxrel = {}
    tags = curved_tags(rec)
    cls = rec["cls"]

    def bad(obs, msg, exp=None, got=None):
        out.append(({"cls": cls, "obs": obs, "tags": tags, "msg": msg},
                    {"case": rec, "obs": obs, "expected": _fl(exp) if exp is not None else None, "observed": got}))

    try:
        P, env, ax, c = build(rec)
    except Exception as e:
        bad("construct", f"valid parameters rejected: {type(e).__name__}: {e}")
        return out, {"maxrel": maxrel}

    def close(kind, e, o, mag):
        e = np.asarray(_fl(e), dtype=float).ravel()
        try:
            o = np.asarray(o, dtype=float).ravel()
        except Exception:
            return False
        if e.shape != o.shape or not np.all(np.isfinite(o)):
            return False
        mag = abs(float(mag)) or 1.0
        w = float(np.max(np.abs(e - o))) / mag if e.size else 0.0
        if w <= TAU[kind]:
            maxrel[kind] = max(maxrel.get(kind, 0.0), w)
            return True
        return False

    def chk(obs, kind, term, getter, mag=None):
        e = ev(term, env)
        try:
            o = getter()
        except Exception as exn:
            bad(obs, f"raised {type(exn).__name__}: {exn}", None)
            return
        if isinstance(e, tuple):
            lo, hi = float(e[0]), float(e[1])
            o = float(o)
            if not (lo * (1 - 1e-12) <= o <= hi * (1 + 1e-12)):
                bad(obs, f"value {o!r} outside the rigorous enclosure [{lo!r}, {hi!r}]", [lo, hi], o)
            return
        m = mag if mag is not None else (abs(float(e)) if not isinstance(e, list) else
                                         math.sqrt(sum(float(x) ** 2 for x in np.ravel(_fl(e)))))
        if not close(kind, e, o, m):
            bad(obs, "value differs from the defining integral", e, np.asarray(o, dtype=float).tolist())

    meas = ev(rec["measure"], env)
    if cls in ("Circle", "Ellipse"):
        chk("area", "area", rec["measure"], lambda: P.area)
        if cls == "Ellipse":
            # the two rigorous enclosures of the spec (Gauss-Kummer series with tail bound, AGM with tail bound) must intersect,
            # and the intersection must be tight enough to decide anything (non-vacuity)
            ps, pa = ev(rec["perim_series"], env), ev(rec["perim_agm"], env)
            lo, hi = max(ps[0], pa[0]), min(ps[1], pa[1])
            if lo > hi + abs(hi) / 10 ** 30:          # sqrt (absolute 1e-50) and pi are truncated rationals in vh/terms.py
                out.append(({"cls": "spec", "obs": "perimeter_enclosures", "tags": tags,
                             "msg": f"Curved.tla: series enclosure [{float(ps[0])!r}, {float(ps[1])!r}] and AGM enclosure "
                                    f"[{float(pa[0])!r}, {float(pa[1])!r}] do not intersect"}, {"case": rec}))
            elif float(hi - lo) > 1e-12 * float(hi):
                out.append(({"cls": "spec", "obs": "perimeter_enclosures", "tags": tags + ["loose"],
                             "msg": f"Curved.tla: the perimeter enclosure has relative width {float((hi - lo) / hi):.2e}"}, {"case": rec}))
        chk("perimeter", "length", rec["boundary"], lambda: P.perimeter)
        chk("circumference", "length", rec["boundary"], lambda: P.circumference)
        e2 = ev(rec["ecc2"], env)
        # e = sqrt(1 - b^2/a^2) is ill-conditioned near a tie (an error of one ulp in the argument moves e by 1e-16 / (2 e)):
        # the comparison is made on e^2, relative 1e-9 plus a few ulps of 1
        try:
            o = float(P.eccentricity)
            if not (math.isfinite(o) and abs(o * o - float(e2)) <= 1e-9 * float(e2) + 1e-15):
                bad("eccentricity", "value differs from the defining integral", math.sqrt(float(e2)), o)
        except Exception as exn:
            bad("eccentricity", f"raised {type(exn).__name__}: {exn}", None)
        pm = [ev(t, env) for t in rec["planar"]]
        mag = math.sqrt(sum(float(x) ** 2 for x in pm))
        n0 = len(out)
        chk("planar_moments_inertia", "inertia", rec["planar"], lambda: list(P.planar_moments_inertia), mag)
        if len(out) > n0:
            # is it exactly the named deviation of the spec?
            try:
                if close("inertia", rec_dev(rec, env), list(P.planar_moments_inertia), mag):
                    out[-1][0]["tags"] = tags + ["matches_Dev_PlanarParallelAxisSwapped"]
            except Exception:
                pass
        chk("polar_moment_inertia", "inertia", {"sum": rec["planar"][:2]}, lambda: P.polar_moment_inertia)
        chk("inertia_tensor_zz", "inertia", {"sum": rec["planar"][:2]}, lambda: np.asarray(P.inertia_tensor)[2][2])
        # isoperimetric quotient 4 pi A / P^2, at most 1, equal to 1 only for the circle
        b = ev(rec["boundary"], env)
        try:
            iq = float(P.iq)
            if isinstance(b, tuple):
                lo = float(4 * PI * meas / (b[1] * b[1]))
                hi = min(1.0, float(4 * PI * meas / (b[0] * b[0])))
                if not (lo * (1 - 1e-9) <= iq <= hi * (1 + 1e-9)):
                    bad("iq", f"iq {iq!r} outside [{lo!r}, {hi!r}]", [lo, hi], iq)
            else:
                if not close("dimensionless", 4 * PI * meas / (b * b), iq, 1.0):
                    bad("iq", "iq differs from 4 pi A / P^2", 4 * PI * meas / (b * b), iq)
            if iq > 1.0 + 1e-12:
                bad("iq_le_1", f"iq {iq!r} exceeds 1", 1.0, iq)
        except Exception as exn:
            bad("iq", f"raised {type(exn).__name__}: {exn}")
    else:
        chk("volume", "volume", rec["measure"], lambda: P.volume)
        chk("surface_area", "area", rec["boundary"], lambda: P.surface_area)
        it = [[ev(t, env) for t in row] for row in rec["inertia"]]
        mag = math.sqrt(sum(float(x) ** 2 for r in it for x in r))
        chk("inertia_tensor", "inertia", rec["inertia"], lambda: P.inertia_tensor, mag)
        if not any(float(x) for x in c):
            # centred at the origin: the principal moments V/5 (b^2 + c^2) ... are separate quantities, each accurate to its own
            # size (for a needle the moment about the long axis is 1e-12 of the others and must not be lost to cancellation)
            try:
                dg = np.diag(np.asarray(P.inertia_tensor, dtype=float))
                for k in range(3):
                    w = float(it[k][k])
                    if not abs(dg[k] - w) <= 1e-9 * abs(w):
                        bad("inertia_tensor_principal", f"principal moment {k} = {dg[k]!r}, exact {w!r} (relative error {abs(dg[k] - w) / abs(w):.2e})", w, float(dg[k]))
                        break
            except Exception as exn:
                bad("inertia_tensor_principal", f"raised {type(exn).__name__}: {exn}")
        b = ev(rec["boundary"], env)
        try:
            iq = float(P.iq)
            if isinstance(b, tuple):
                lo = float(36 * PI * meas * meas / b[1] ** 3)
                hi = min(1.0, float(36 * PI * meas * meas / b[0] ** 3))
                if not (lo * (1 - 1e-9) <= iq <= hi * (1 + 1e-9)):
                    bad("iq", f"iq {iq!r} outside [{lo!r}, {hi!r}]", [lo, hi], iq)
            else:
                want = 36 * (math.pi if isinstance(b, float) else PI) * meas * meas / b ** 3
                if not close("dimensionless", want, iq, 1.0):
                    bad("iq", "iq differs from 36 pi V^2 / S^3", want, iq)
            if iq > 1.0 + 1e-12:
                bad("iq_le_1", f"iq {iq!r} exceeds 1", 1.0, iq)
        except Exception as exn:
            bad("iq", f"raised {type(exn).__name__}: {exn}")
        if cls == "Sphere":
            chk("diameter", "length", {"mul": [2, rec["axes"][0]]}, lambda: P.diameter)
        if cls == "Ellipsoid":
            # relations: invariance of the surface area under every permutation of the axes, homogeneity
            import coxeter
            try:
                s0 = float(P.surface_area)
                for perm in itertools.permutations(range(3)):
                    Q = coxeter.shapes.Ellipsoid(ax[perm[0]], ax[perm[1]], ax[perm[2]])
                    if not close("area", s0, Q.surface_area, s0):
                        bad("surface_area_permutation", f"surface area changes under axis permutation {perm}",
                            s0, float(Q.surface_area))
                        break
                Q = coxeter.shapes.Ellipsoid(3 * ax[0], 3 * ax[1], 3 * ax[2])
                if not close("area", 9 * s0, Q.surface_area, 9 * s0):
                    bad("surface_area_homogeneity", "S(3a,3b,3c) != 9 S(a,b,c)", 9 * s0, float(Q.surface_area))
            except Exception as exn:
                bad("surface_area", f"raised {type(exn).__name__}: {exn}")
    # centre / radius getters
    if not close("point", [env["xc"], env["yc"], env["zc"]], P.centroid, max(1e-300, max(abs(x) for x in c) + max(ax))):
        bad("centroid", "centroid is not the given centre", None, np.asarray(P.centroid).tolist())
    return out, {"maxrel": maxrel}


def run_measures(ctx):
    res = emit(ctx, ctx.tier)
    ctx.tlc(res, "Curved emission (parameter state machine)")
    recs = res.records
    seen = {}
    for r in recs:
        seen.setdefault((r["cls"], str(r["axraw"]), str(r["env"])), r)
    recs = list(seen.values())
    results = pmap(eval_measures, recs)
    import json
    for r, (mism, stats) in zip(recs, results):
        ctx.case((r["cls"], json.dumps(r["axraw"]), json.dumps(r["env"][-4:])),
                 sample={"cls": r["cls"], "axes": r["axraw"], "scale_exponent": r["sc"], "env": r["env"][:6],
                         "measure": r["measure"]})
        ctx.traces += 1
        for k, w in stats.get("maxrel", {}).items():
            ctx.maxrel[k] = max(ctx.maxrel.get(k, 0.0), w)
        for sig, detail in mism:
            ctx.violation(sig, detail)
    return recs


def replay_measures(rec):
    from .pool import _init
    _init()
    mism, _ = eval_measures(rec["detail"]["case"])
    return [f"{s['cls']}.{s['obs']}: {s['msg']}" for s, _ in mism if s["obs"] == rec["signature"]["obs"]]


# ---- containment (C05 curved part: Sphere, Ellipsoid; C06 curved part: Circle, Ellipse) --------------------------
GRID = [F(-2), F(-3, 2), F(-1), F(-3, 4), F(-1, 2), F(-1, 4), F(0), F(1, 4), F(1, 2), F(3, 4), F(1), F(3, 2), F(2)]
MARGIN = F(1, 10 ** 6)


def eval_inside(rec):
    import numpy as np
    out = []
    tags = curved_tags(rec)
    cls = rec["cls"]

    def bad(obs, msg, exp=None, got=None):
        out.append(({"cls": cls, "obs": obs, "tags": tags, "msg": msg},
                    {"case": rec, "obs": obs, "expected": exp, "observed": got}))

    try:
        P, env, ax, c = build(rec)
    except Exception as e:
        bad("construct", f"valid parameters rejected: {type(e).__name__}: {e}")
        return out, {}
    two_d = cls in ("Circle", "Ellipse")
    axes = [env["a1"], env.get("a2", env["a1"]), env.get("a3", env["a1"])]
    pts, want, unclear, dev = [], [], 0, []
    g3 = GRID if two_d else GRID[::2]
    for u in g3:
        for v in g3:
            for w in ([F(0)] if two_d else GRID[::2]):
                p = [env["xc"] + u * axes[0], env["yc"] + v * axes[1], env["zc"] + w * axes[2]]
                e2 = dict(env)
                e2.update(px=p[0], py=p[1], pz=p[2])
                form = ev(rec["member"], e2)
                if abs(form - 1) < MARGIN:
                    unclear += 1
                    continue
                pts.append([float(x) for x in p])
                want.append(form < 1)
                if rec.get("member_dev"):
                    dv = [ev(t, e2) for t in rec["member_dev"]]
                    # None = on the deviation's own decision boundary (float rounding decides)
                    dev.append(None if any(abs(x - 1) < MARGIN for x in dv) else all(x <= 1 for x in dv))
    pts = np.array(pts)
    want = np.array(want)
    snap = pts.copy()
    try:
        got = np.asarray(P.is_inside(pts))
        if got.shape != want.shape:
            bad("is_inside", f"batch result shape {got.shape}, expected {want.shape}")
        elif not np.array_equal(got.astype(bool), want):
            k = int(np.nonzero(got.astype(bool) != want)[0][0])
            rel = ((pts[k] - np.array(c)) / np.array([float(a) for a in axes])).tolist()
            bad("is_inside", f"point centre + {rel} (in semi-axis units) reported {bool(got[k])}, exact "
                f"membership {bool(want[k])}", want.tolist(), got.tolist())
            quad = "quadrant_" + "".join("+" if x >= 0 else "-" for x in rel[:2])
            out[-1][0]["tags"] = tags + [quad]
            if dev and all(d is None or bool(g) == d for g, d in zip(got, dev)):
                out[-1][0]["tags"] = tags + ["matches_Dev_EllipseQuadrantBox"]
        if not np.array_equal(snap, pts):
            bad("is_inside_args", "is_inside modified the caller's points")
        for k in range(0, len(pts), 11):
            g1 = np.asarray(P.is_inside(pts[k]))
            if dev and g1.shape == (1,) and (dev[k] is None or (bool(g1[0]) == dev[k] and dev[k] != bool(want[k]))):
                continue      # same deviation as the batch call (reported once, through the batch)
            if g1.shape != (1,) or bool(g1[0]) != bool(want[k]):
                bad("is_inside_single", f"single-point call on {pts[k].tolist()} gave {g1.tolist()}, exact {bool(want[k])}")
                break
    except Exception as exn:
        bad("is_inside", f"raised {type(exn).__name__}: {exn}")
    return out, {"unclear": unclear, "points": len(pts)}


def _run_inside(ctx, classes):
    import json
    res = emit(ctx, ctx.tier)
    ctx.tlc(res, "Curved emission (parameter state machine) for containment")
    seen = {}
    for r in res.records:
        if r["cls"] in classes:
            seen.setdefault((r["cls"], str(r["axraw"]), str(r["env"])), r)
    recs = list(seen.values())
    if ctx.tier == "quick":
        recs = [r for i, r in enumerate(recs) if (i + ctx.seed) % 3 == 0]
    results = pmap(eval_inside, recs)
    for r, (mism, stats) in zip(recs, results):
        ctx.case((r["cls"], json.dumps(r["axraw"]), json.dumps(r["env"][-4:])),
                 sample={"cls": r["cls"], "axes": r["axraw"], "scale_exponent": r["sc"], "member_form": r["member"]})
        ctx.traces += 1
        ctx.unclear += stats.get("unclear", 0)
        for sig, detail in mism:
            ctx.violation(sig, detail)
    ctx.extra["curved_shapes"] = len(recs)


def run_inside2d(ctx):
    _run_inside(ctx, ("Circle", "Ellipse"))


def run_inside3d(ctx):
    _run_inside(ctx, ("Sphere", "Ellipsoid"))


def replay_inside(rec):
    from .pool import _init
    _init()
    mism, _ = eval_inside(rec["detail"]["case"])
    return [f"{s['cls']}.{s['obs']}: {s['msg']}" for s, _ in mism]
