"""C09: covariance of every public observable under similarities and relabelling, with the law table of spec/Placement.tla.
Metamorphic: projection(shape built from g.x) must equal Law_g(projection(shape built from x)) for every observable found by
reflection; observables the table does not classify are reported."""
import json
import math
import random
import warnings
from fractions import Fraction as F

from . import machine_eval as me
from . import tlc
from .placement import Placement, fl, palette

warnings.filterwarnings("ignore")
CFG = "SPECIFICATION Spec\nINVARIANT T1_Laws\nINVARIANT EmitTable\nVIEW ViewV\nCHECK_DEADLOCK FALSE\n"


def lawtable(ctx, quick):
    cfg = CFG + f"CONSTANTS\n U <- U8\n MaxPts = {4 if quick else 5}\n Shifts <- {'Shifts1' if quick else 'ShiftsQ'}\n Scales <- {'Scales1' if quick else 'ScalesQ'}\n"
    res = tlc.run("MC_Placement", cfg, timeout=1500)
    ctx.tlc(res, "Placement laws on the lattice symmetry group (24 proper signed permutations x shifts x scales)")
    if res.violated:
        ctx.violation({"cls": "spec", "obs": res.violated, "tags": ["T1"], "msg": "a covariance law fails in Placement.tla"},
                      {"tlc": res.stdout[-2000:]})
    t = next(r for r in res.records if r.get("k") == "lawtable")["t"]
    kind = {}
    for k, names in t.items():
        for n in names:
            kind[n] = k
    return kind


def random_rotation(rnd):
    import numpy as np
    q = np.array([rnd.gauss(0, 1) for _ in range(4)])
    q /= np.linalg.norm(q)
    w, x, y, z = q
    return np.array([[1 - 2 * (y * y + z * z), 2 * (x * y - w * z), 2 * (x * z + w * y)],
                     [2 * (x * y + w * z), 1 - 2 * (x * x + z * z), 2 * (y * z - w * x)],
                     [2 * (x * z - w * y), 2 * (y * z + w * x), 1 - 2 * (x * x + y * y)]])


def _seg_dist(p, a, b):
    import numpy as np
    ab = b - a
    u = max(0.0, min(1.0, float(np.dot(p - a, ab) / np.dot(ab, ab))))
    return float(np.linalg.norm(p - (a + u * ab)))


def _tri_dist(p, a, b, c):
    """Distance from p to the triangle abc."""
    import numpy as np
    n = np.cross(b - a, c - a)
    nn = float(np.dot(n, n))
    if nn > 0:
        d = float(np.dot(p - a, n)) / math.sqrt(nn)
        pr = p - d * n / math.sqrt(nn)
        # barycentric test
        def side(u, v, w):
            return float(np.dot(np.cross(v - u, w - u), n))
        if side(a, b, pr) >= 0 and side(b, c, pr) >= 0 and side(c, a, pr) >= 0:
            return abs(d)
    return min(_seg_dist(p, a, b), _seg_dist(p, b, c), _seg_dist(p, c, a))


def boundary_distance(shape, cls, q):
    """Distance of each query point from the boundary of the shape, computed from the vertices / faces directly."""
    import numpy as np
    q = np.asarray(q, dtype=float)
    if cls in ("Circle", "Sphere", "Ellipse", "Ellipsoid"):
        ax = np.array([float(a) for a in me.axes_of(shape)] * (3 if cls in ("Circle", "Sphere") else 1))[:3]
        if cls in ("Circle", "Ellipse"):
            ax = np.array(list(ax[:2]) + [1.0])
        rel = (q - np.asarray(shape.centroid, float)) / ax
        if cls in ("Circle", "Ellipse"):
            rel[:, 2] = 0
        return np.abs(np.linalg.norm(rel, axis=1) - 1.0) * float(np.min(ax[:2] if cls in ("Circle", "Ellipse") else ax))
    v = np.asarray(shape.vertices, dtype=float)
    rr = float(getattr(shape, "radius", 0.0)) if cls in ("ConvexSpheropolygon", "ConvexSpheropolyhedron") else 0.0
    out = []
    if hasattr(shape, "faces") or cls == "ConvexSpheropolyhedron":
        faces = shape.faces if hasattr(shape, "faces") else shape.polyhedron.faces
        for p in q:
            d = min(_tri_dist(p, v[f[0]], v[f[k]], v[f[k + 1]]) for f in faces for k in range(1, len(f) - 1))
            out.append(abs(d - rr) if rr else d)
    else:
        n = len(v)
        for p in q:
            d = min(_seg_dist(p, v[i], v[(i + 1) % n]) for i in range(n))
            out.append(abs(d - rr) if rr else d)
    return np.array(out)


def build_transformed(cls, spec, s, R, t, perm=None):
    """The same shape from transformed (and possibly permuted) input coordinates."""
    import numpy as np
    import coxeter
    S = coxeter.shapes
    base = me.build(cls, spec)
    if cls in me.CURVED:
        return getattr(S, cls)(*[float(a) * s for a in me.axes_of(base)], s * (R @ np.asarray(base.centroid, float)) + t)
    v = np.asarray(base.vertices, dtype=float)
    tv = s * (v @ R.T) + t
    if cls == "ConvexPolyhedron":
        return S.ConvexPolyhedron(tv[perm] if perm is not None else tv)
    if cls == "ConvexSpheropolyhedron":
        return S.ConvexSpheropolyhedron(tv[perm] if perm is not None else tv, float(base.radius) * s)
    if cls == "Polyhedron":
        faces = [np.array(f) for f in base.faces]
        if perm is not None:            # relabel vertices and shift every face cycle
            inv = np.argsort(perm)
            tv = tv[perm]
            faces = [np.roll(inv[f], k % len(f)) for k, f in enumerate(faces)]
        return S.Polyhedron(tv, faces, faces_are_convex=True)
    n = R @ np.asarray(base.normal, dtype=float)
    if perm is not None:                # cyclic shift of the polygon's vertex list
        tv = np.roll(tv, 2, axis=0)
    if cls == "Polygon":
        return S.Polygon(tv, normal=n)
    if cls == "ConvexPolygon":
        return S.ConvexPolygon(tv, normal=n)
    return S.ConvexSpheropolygon(tv, float(base.radius) * s, normal=n)


def eval_case(job):
    """job: cls, base, s, R (3x3 list), t, relabel(bool), kind (law table), seed"""
    import numpy as np
    random.seed(job["seed"])
    np.random.seed(job["seed"])
    cls = job["cls"]
    spec = me.bases(cls)[job["base"]]
    s, R, t = float(job["s"]), np.array(job["R"], dtype=float), np.array(job["t"], dtype=float)
    kind = job["kind"]
    out = []
    tags = [job["base"]] + job["tags"]

    def bad(obs, msg, extra=()):
        out.append(({"cls": cls, "obs": obs, "tags": tags + list(extra), "msg": msg}, {"job": job}))

    base = me.build(cls, spec)
    perm = None
    if job["relabel"] and not (cls in me.CURVED):
        rnd = random.Random(job["seed"])
        perm = list(range(len(np.asarray(base.vertices))))
        rnd.shuffle(perm)
        perm = np.array(perm)
    try:
        img = build_transformed(cls, spec, s, R, t, perm)
    except Exception as e:
        bad("construct", f"a valid shape became an error after the transformation: {type(e).__name__}: {e}", ["valid_became_error"])
        return out, {}
    p0, p1 = me.project(base), me.project(img)
    g0 = me.geom(base)
    mlen = float(np.max(np.abs(me.geom(img)))) * 2 + 1e-300
    V0 = p0.get("volume", p0.get("area"))
    c0 = np.asarray(base.centroid, dtype=float) if not isinstance(p0.get("centroid"), tuple) and "centroid" in p0 else None
    unclassified = []
    relabelled = perm is not None

    def pts(x):
        return s * (np.asarray(x, dtype=float) @ R.T) + t

    def close(a, b, mag, tol=1e-9):
        a, b = np.asarray(a, dtype=float), np.asarray(b, dtype=float)
        return a.shape == b.shape and np.all(np.isfinite(a)) and (a.size == 0 or float(np.max(np.abs(a - b))) <= tol * max(mag, 1e-300))

    def sortrows(a):
        a = np.asarray(a, dtype=float)
        a = a.reshape(len(a), -1)
        return a[np.lexsort(np.round(a / (np.max(np.abs(a)) + 1e-300), 7).T[::-1])]

    for name in sorted(set(p0) | set(p1)):
        basen = name.split(".")[0]
        k = kind.get(basen)
        a, b = p0.get(name), p1.get(name)
        if basen == "get_face_area()":
            k = "area"
        if name.endswith("(q)") or name.endswith("(angles)"):
            continue        # queries at fixed arguments (machine projection): their covariance is checked with mapped arguments below
        if isinstance(a, tuple) != isinstance(b, tuple):
            bad(name, f"{a!r} on the original, {b!r} on the transformed shape"[:300], ["exception_changed"])
            continue
        if isinstance(a, tuple) or isinstance(b, tuple):
            if a != b and not (isinstance(a, tuple) and isinstance(b, tuple) and a[0] == b[0] == "opaque"):
                bad(name, f"{a!r} on the original, {b!r} on the transformed shape", ["exception_changed"])
            continue
        if a is None or b is None:
            bad(name, "observable exists only on one of the two shapes")
            continue
        tol = 1e-6 if "minimal_bounding" in name else 1e-9
        ok = True
        if k is None:
            unclassified.append(basen)
            continue
        if k == "ball":
            if name.endswith(".radius"):
                ok = close(b, s * np.asarray(a), s * float(np.max(np.abs(a))), tol)
            elif name.endswith(".center"):
                ok = close(b, pts(a), mlen, tol)
        elif k == "length":
            x, y = np.sort(np.ravel(np.asarray(a, float))) * s, np.sort(np.ravel(np.asarray(b, float)))
            ok = close(y, x, float(np.max(np.abs(x))), tol)
        elif k in ("area", "signedarea"):
            x, y = np.sort(np.ravel(np.asarray(a, float))) * s * s, np.sort(np.ravel(np.asarray(b, float)))
            ok = close(y, x, float(np.max(np.abs(x))))
        elif k == "volume":
            ok = close(b, s ** 3 * a, abs(s ** 3 * a))
        elif k == "point":
            x, y = pts(a), np.asarray(b, float)
            if x.ndim == 2 and (relabelled or name in ("face_centroids",) or cls in ("ConvexPolygon", "ConvexSpheropolygon", "Polygon")):
                x, y = sortrows(x), sortrows(y)
            ok = close(y, x, mlen)
        elif k == "vector":
            x, y = np.asarray(a, float) @ R.T, np.asarray(b, float)
            if name == "edge_vectors":
                x = x * s
                # an edge (i<j) may flip under relabelling: compare up to sign, as a set
                # match the rows as sets, each up to sign (a canonical sign by a fixed direction ties for edges orthogonal to it)
                mag = float(np.max(np.abs(x)))
                used = np.zeros(len(x), dtype=bool)
                ok = x.shape == y.shape
                for row in (y if ok else []):
                    d = np.minimum(np.max(np.abs(x - row), axis=1), np.max(np.abs(x + row), axis=1))
                    d[used] = np.inf
                    j = int(np.argmin(d))
                    if not d[j] <= 1e-8 * mag:
                        ok = False
                        break
                    used[j] = True
            else:
                if x.ndim == 2:
                    x, y = sortrows(x), sortrows(y)
                ok = close(y, x, 1.0)
        elif k == "plane":
            n_ = np.asarray(a, float)[:, :3] @ R.T
            d_ = s * np.asarray(a, float)[:, 3] - n_ @ t
            x, y = sortrows(np.hstack([n_, d_[:, None] / mlen])), sortrows(np.hstack([np.asarray(b, float)[:, :3], np.asarray(b, float)[:, 3:] / mlen]))
            ok = close(y, x, 1.0, 1e-8)
        elif k == "inertia":
            A = np.asarray(a, float)
            if cls in ("Circle", "Ellipse"):
                continue        # the planar shapes' tensor is diag(0,0,polar) by definition: see 'polar'
            if c0 is None or V0 is None or isinstance(V0, tuple):
                continue
            M0 = float(V0)
            Ic = A - M0 * (float(c0 @ c0) * np.eye(3) - np.outer(c0, c0))
            deg = 5 if cls in ("ConvexPolyhedron", "Polyhedron", "Sphere", "Ellipsoid") else 4
            c1 = s * (R @ c0) + t
            M1 = M0 * s ** (deg - 2)
            want = s ** deg * (R @ Ic @ R.T) + M1 * (float(c1 @ c1) * np.eye(3) - np.outer(c1, c1))
            ok = close(b, want, float(np.linalg.norm(want)))
        elif k == "polar":
            continue            # about an axis through the origin: covered through inertia_tensor / C04
        elif k == "dimensionless":
            ok = close(b, a, max(1.0, float(np.max(np.abs(np.asarray(a, float))))))
        elif k == "index":
            if relabelled or cls == "ConvexPolyhedron":
                ok = (len(a) == len(b))
            else:
                ok = (a == b) if isinstance(a, list) else np.array_equal(np.asarray(a), np.asarray(b))
        elif k == "frame_dependent":
            continue
        if not ok:
            bad(name, f"{name} of the transformed shape is not the {k} law applied to the original "
                f"(original {np.asarray(a).ravel()[:4].tolist()}, transformed {np.asarray(b).ravel()[:4].tolist()})", [k])
    # containment and distance are invariant: map query points with g
    try:
        if hasattr(base, "is_inside"):
            cen = g0.reshape(-1, 3)[0] if cls not in me.CURVED else np.asarray(base.centroid, float)
            rnd = random.Random(job["seed"] + 1)
            size = float(np.max(np.abs(g0 - np.mean(g0)))) if cls not in me.CURVED else max(me.axes_of(base))
            q = np.array([cen + np.array([rnd.uniform(-1, 1), rnd.uniform(-1, 1), 0.0 if cls in ("Polygon", "ConvexPolygon", "Circle", "Ellipse") else rnd.uniform(-1, 1)]) * size * 1.3
                          for _ in range(40)])
            if cls not in me.CURVED:
                # degenerate alignments of the axis-aligned original: points sharing one or two coordinates with a vertex
                vv = np.asarray(base.vertices, dtype=float)
                extra = []
                for v in vv[:6]:
                    for d in ([0, 0.37, 0], [0, -0.53, 0], [0.41, 0, 0], [0, 0, 0.29], [0, 0, -0.61], [0, 1.9, 0], [-1.7, 0, 0]):
                        dd = np.array(d) * size
                        if cls in ("Polygon", "ConvexPolygon", "ConvexSpheropolygon") and d[2] != 0:
                            continue
                        extra.append(v + dd)
                q = np.vstack([q, np.array(extra)])
            if cls in ("Polygon", "ConvexPolygon"):
                # keep the query points in the polygon's plane
                n0 = np.asarray(base.normal, float)
                q = q - np.outer((q - np.asarray(base.vertices)[0]) @ n0, n0)
            r0 = np.asarray(base.is_inside(q)).astype(bool)
            r1 = np.asarray(img.is_inside(pts(q))).astype(bool)
            # points within 1e-6 of the boundary may legitimately flip: drop those whose answer changes under a tiny shrink
            if not np.array_equal(r0, r1):
                # points within 1e-6 sizes of the boundary may legitimately flip: measure the distance to the boundary
                # independently (edges of the polygon / triangles of the faces / level set of the quadratic form)
                stable = boundary_distance(base, cls, q) > 1e-6 * size
                if np.any((r0 != r1) & stable):
                    k_ = int(np.nonzero((r0 != r1) & stable)[0][0])
                    bad("is_inside", f"containment of {q[k_].tolist()} is {bool(r0[k_])} but {bool(r1[k_])} for its image", ["dimensionless"])
    except NotImplementedError:
        pass
    except Exception as e:
        bad("is_inside", f"raised {type(e).__name__}: {e}", ["raised"])
    try:
        if hasattr(base, "compute_form_factor_amplitude") and cls not in ("ConvexSpheropolyhedron",):
            qv = np.array([[0.0, 0, 0], [0.4, -0.2, 0.3], [1.5, 0.5, -1.0], [0.0, 0.0, 2.0]])
            f0 = np.asarray(base.compute_form_factor_amplitude(qv))
            q1 = (qv @ R.T) / s
            f1 = np.asarray(img.compute_form_factor_amplitude(q1))
            deg = 3 if cls in ("ConvexPolyhedron", "Polyhedron", "Sphere") else 2
            if deg == 2:        # planar shapes integrate exp(-i q.r) with q projected into their plane
                n1 = np.asarray(img.normal, dtype=float)
                qpar = q1 - np.outer(q1 @ n1, n1)
                want = s ** deg * f0 * np.exp(-1j * (qpar @ t))
            else:
                want = s ** deg * f0 * np.exp(-1j * (q1 @ t))
            if np.max(np.abs(f1 - want)) > 1e-8 * abs(want[0]):
                bad("compute_form_factor_amplitude", "F(g.x)(R q / s) differs from s^d F(x)(q) exp(-i q'.t)", ["formfactor"])
    except NotImplementedError:
        pass
    except Exception as e:
        bad("compute_form_factor_amplitude", f"raised {type(e).__name__}: {e}", ["raised"])
    return out, {"unclassified": sorted(set(unclassified))}
