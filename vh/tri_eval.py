"""T2 for the ear clipping of coxeter/extern/polytri (AlgPolygon.tla: ATriangulate; Polygon2.tla: T1_Triangulate): whatever
triangles the implementation returns for a placed lattice polygon must tile it - as many as n - 2, each running the way the
cycle runs, integrating to the exact area, first and second moments of the record - for every relabelling and placement.
The triangle SEQUENCE is not compared with the transcription's: another valid triangulation violates nothing."""
import json
from fractions import Fraction as F

from .placement import Placement, fl, palette
from .polygon_driver import h as hsh


def _orient(a, b, c):
    return (b[0] - a[0]) * (c[1] - a[1]) - (b[1] - a[1]) * (c[0] - a[0])


def eval_case(case):
    import numpy as np
    from coxeter.extern.polytri import polytri
    rec = case["rec"]
    pl = Placement.from_json(case["pl"])
    v = [tuple(p) for p in rec["v"]]
    n = len(v)
    tags = ["n%d" % n, "ccw" if rec["ccw"] else "cw"] + pl.tags()
    out = []

    def bad(msg):
        out.append(({"cls": "polytri", "obs": "triangulate", "tags": tags, "msg": msg}, {"case": case}))

    verts = np.array(fl(pl.points([(p[0], p[1], 0) for p in v])), dtype=float)
    index = {tuple(row): i for i, row in enumerate(verts.tolist())}
    try:
        tris = [[index[tuple(np.asarray(p, dtype=float).tolist())] for p in t] for t in polytri.triangulate(verts.copy())]
    except KeyError:
        bad("a returned triangle has a corner that is not a vertex of the polygon")
        return out, {}
    except Exception as e:
        bad(f"raised {type(e).__name__}: {e} on a simple polygon")
        return out, {}
    sg = 1 if rec["ccw"] else -1
    if len(tris) != n - 2 or len({tuple(sorted(t)) for t in tris}) != n - 2:
        bad(f"{len(tris)} triangles ({len({tuple(sorted(t)) for t in tris})} distinct) for {n} vertices")
        return out, {}
    area2 = 0
    cnum = [0, 0]
    m24 = [0, 0, 0]
    for t in tris:
        a, b, c = (v[i] for i in t)
        d = sg * _orient(a, b, c)
        if d <= 0:
            bad(f"triangle {t} is degenerate or runs against the cycle")
            return out, {}
        area2 += d
        for k in range(2):
            cnum[k] += d * (a[k] + b[k] + c[k])
        for j, (k, l) in enumerate(((0, 0), (1, 1), (0, 1))):
            m24[j] += d * (a[k] * a[l] + b[k] * b[l] + c[k] * c[l] + (a[k] + b[k] + c[k]) * (a[l] + b[l] + c[l]))
    if area2 != rec["area2"] or cnum != list(rec["cnum"]) or m24 != list(rec["m24"]):
        bad(f"the triangles do not tile the polygon: 2A = {area2} (exact {rec['area2']}), first moments {cnum} (exact {rec['cnum']}), "
            f"second moments {m24} (exact {rec['m24']})")
    return out, {}


def build_cases(recs, tier, seed):
    cases = []
    for r in recs:
        pal = palette(8, tier)
        k = hsh(r["v"], seed)
        for pl in ([pal[0], pal[1 + k % (len(pal) - 1)]] if tier == "quick" else pal):
            cases.append({"rec": {x: r[x] for x in ("v", "ccw", "area2", "cnum", "m24")}, "pl": pl.to_json()})
    return cases


def replay(ctx, cases):
    from .pool import pmap
    for case, (mism, _) in zip(cases, pmap(eval_case, cases, chunksize=16)):
        ctx.case(("triangulate", json.dumps(case["rec"]["v"]), json.dumps(case["pl"])), nontrivial=len(case["rec"]["v"]) > 3,
                 sample={"polygon": case["rec"]["v"], "placement": case["pl"]})
        ctx.traces += 1
        for sig, detail in mism:
            ctx.violation(sig, detail)
