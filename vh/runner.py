"""Check context: accumulates coverage, compares numbers by the DESIGN 4.3 policy, handles known
findings, writes evidence and replay files, and turns the outcome into the exit status."""
import json
import math
import os
import sys
import traceback

from .common import REPO, SEED, VERIF, MachineryError, Timer, repo_head, sha

# evidence/ and replays/ live under /verif; tools/mutant_matrix.sh redirects them so that runs against changed trees
# never overwrite the evidence of the tree under test
OUT = os.environ.get("VERIF_OUT") or VERIF

TAU = {  # DESIGN.md 4.3
    "length": 1e-9, "point": 1e-9, "area": 1e-9, "volume": 1e-9, "inertia": 1e-9,
    "dimensionless": 1e-9, "angle": 1e-9, "formfactor": 1e-8, "miniball": 1e-7,
}


def load_findings():
    p = os.path.join(VERIF, "known_findings.json")
    if not os.path.exists(p):
        return []
    with open(p) as f:
        return json.load(f)["entries"]


class Ctx:
    def __init__(self, pid, tier):
        self.pid = pid
        self.tier = tier
        self.seed = SEED
        self.timer = Timer()
        self.states = 0
        self.transitions = 0
        self.tlc_runs = []
        self.traces = 0
        self.evaluations = 0
        self.keys = set()
        self.samples = []
        self.violations = []      # (sig, replaypath)
        self.known_hits = {}      # finding id -> count
        self.unclear = 0
        self.maxrel = {}
        self.notes = []
        self.exhaustive = True
        self.extra = {}
        self.findings = [e for e in load_findings() if e.get("property") == pid]
        self._vio_keys = set()

    # ---- coverage accounting -------------------------------------------------
    def tlc(self, res, what=""):
        if res.error:
            raise MachineryError(f"TLC failed ({what}): {res.error[:1500]}")
        self.states += res.distinct
        self.transitions += res.generated
        self.tlc_runs.append({"what": what, "distinct": res.distinct, "generated": res.generated,
                              "wall_s": res.wall, "violated": res.violated})
        return res

    def case(self, key, nontrivial=True, sample=None):
        self.evaluations += 1
        if nontrivial:
            self.keys.add(key if isinstance(key, (str, int, tuple)) else sha(key))
        if sample is not None and len(self.samples) < 3:
            self.samples.append(sample)

    # ---- numeric comparison ----------------------------------------------------
    def close(self, kind, expected, observed, mag, tau=None):
        """|observed-expected| <= tau*mag elementwise; records the largest relative error seen."""
        tau = TAU[kind] if tau is None else tau
        e = _flat(expected)
        o = _flat(observed)
        if len(e) != len(o):
            return False
        mag = abs(float(mag))
        if mag == 0.0:
            mag = 1.0
        worst = 0.0
        for a, b in zip(e, o):
            if isinstance(b, complex) or isinstance(a, complex):
                d = abs(complex(a) - complex(b))
            else:
                a, b = float(a), float(b)
                if math.isnan(b) or math.isinf(b):
                    return False
                d = abs(a - b)
            worst = max(worst, d / mag)
        if worst <= tau:
            self.maxrel[kind] = max(self.maxrel.get(kind, 0.0), worst)
            return True
        return False

    # ---- violations and findings ---------------------------------------------------
    def violation(self, sig, detail):
        """sig: dict with at least cls, obs and tags (list); detail: replayable record."""
        tags = set(sig.get("tags", []))
        for f in self.findings:
            if f.get("status") != "finding":
                continue
            m = f["match"]
            if all(sig.get(k) == v for k, v in m.items() if k != "tags") and set(m.get("tags", [])) <= tags:
                self.known_hits[f["id"]] = self.known_hits.get(f["id"], 0) + 1
                return
        k = (sig.get("cls"), sig.get("obs"), tuple(sorted(tags)))
        if k in self._vio_keys and len(self.violations) >= 20:
            return
        self._vio_keys.add(k)
        if len(self.violations) >= 40:
            self.violations.append((sig, None))
            return
        rec = {"property": self.pid, "tier": self.tier, "seed": self.seed, "repo_head": repo_head(),
               "signature": sig, "detail": detail}
        d = os.path.join(OUT, "replays", self.pid)
        os.makedirs(d, exist_ok=True)
        path = os.path.join(d, sha(rec["signature"]) + "-" + sha(detail) + ".json")
        with open(path, "w") as fh:
            json.dump(rec, fh, indent=1, default=_default)
        self.violations.append((sig, path))

    # ---- finish -------------------------------------------------------------------------
    def finish(self, level="model_checking", rule="", assumptions=(), trusted=(), checker_cmd=""):
        for f in self.findings:
            if f.get("status") == "finding" and f["id"] in self.known_hits:
                print(f"KNOWN-FINDING: property={self.pid} {f['what']} [{f['id']}, {self.known_hits[f['id']]} cases]")
            elif f.get("status") == "finding":
                print(f"NOTE: listed finding {f['id']} did not reproduce in this run (stale or out of tier)")
        seen = set()
        for sig, path in self.violations:
            if path is None or path in seen:
                continue
            seen.add(path)
            print(f"VIOLATION property={self.pid} replay={path}")
            print(f"  {sig.get('cls')}.{sig.get('obs')} tags={sorted(sig.get('tags', []))} {sig.get('msg', '')}")
        if not self.samples:
            self.samples.append({"note": "no sample recorded"})
        cov = {
            "states": max(self.states, 0), "transitions": max(self.transitions, 0),
            "traces_validated_against_impl": self.traces,
            "samples": self.samples[:3],
            "evaluations": self.evaluations,
            "distinct_nontrivial": len(self.keys),
            "rule": rule,
            "exhaustive": bool(self.exhaustive),
            "unclear_cases": self.unclear,
            "max_rel_error_by_kind": {k: float(f"{v:.3g}") for k, v in self.maxrel.items()},
            "tolerances": {k: TAU[k] for k in self.maxrel},
            "known_findings_hit": self.known_hits,
            "tlc_runs": self.tlc_runs,
            "checker_cmd": checker_cmd or f"./check {self.pid} --tier {self.tier}",
            "trusted_base": list(trusted) or ["TLC 1.8.0", "vh/terms.py", "vh/runner.py tolerance table",
                                              "numpy/scipy as used by coxeter itself"],
            "repo_head": repo_head(),
            "repo": REPO,
            "notes": self.notes,
        }
        cov.update(self.extra)
        ev = {"property_id": self.pid, "tier": self.tier, "seed": self.seed, "level": level,
              "coverage": cov, "assumptions": list(assumptions), "wall_s": self.timer.s(),
              "violations": len(seen)}
        os.makedirs(os.path.join(OUT, "evidence"), exist_ok=True)
        with open(os.path.join(OUT, "evidence", f"{self.pid}.json"), "w") as fh:
            json.dump(ev, fh, indent=1, default=_default)
        print(f"{self.pid} {self.tier}: states={self.states} transitions={self.transitions} "
              f"impl_runs={self.traces} evaluations={self.evaluations} distinct={len(self.keys)} "
              f"violations={len(seen)} known={sum(self.known_hits.values())} wall={self.timer.s()}s")
        return 1 if seen else 0


def _flat(x):
    try:
        import numpy as np
        if isinstance(x, np.ndarray):
            return [v for v in x.ravel().tolist()]
    except Exception:
        pass
    if isinstance(x, (list, tuple)):
        out = []
        for v in x:
            out.extend(_flat(v))
        return out
    return [x]


def _default(o):
    try:
        import numpy as np
        if isinstance(o, np.ndarray):
            return o.tolist()
        if isinstance(o, (np.integer,)):
            return int(o)
        if isinstance(o, (np.floating,)):
            return float(o)
        if isinstance(o, (np.bool_,)):
            return bool(o)
    except Exception:
        pass
    from fractions import Fraction
    if isinstance(o, Fraction):
        return [o.numerator, o.denominator]
    if isinstance(o, complex):
        return [o.real, o.imag]
    if isinstance(o, (set, frozenset)):
        return sorted(o)
    return str(o)


def main(argv=None):
    import argparse
    import importlib
    ap = argparse.ArgumentParser(prog="check")
    ap.add_argument("pid")
    ap.add_argument("--tier", default=os.environ.get("VERIF_TIER") or "quick", choices=["quick", "thorough"])
    ap.add_argument("--replay")
    a = ap.parse_args(argv)
    os.environ.setdefault("PYTHONHASHSEED", "0")
    try:
        mod = importlib.import_module(f"vh.props.{a.pid.lower()}")
    except ModuleNotFoundError as e:
        print(f"MACHINERY-ERROR no check for {a.pid}: {e}")
        return 2
    try:
        import numpy as np
        import random
        np.random.seed(SEED)
        random.seed(SEED)
        if a.replay:
            with open(a.replay) as fh:
                rec = json.load(fh)
            bad = mod.replay(rec)
            if bad:
                print(f"VIOLATION property={a.pid} replay={a.replay}")
                for b in bad[:5]:
                    print("  ", b)
                return 1
            print(f"replay {a.replay}: no violation on {REPO}")
            return 0
        ctx = Ctx(a.pid, a.tier)
        return mod.run(ctx)
    except MachineryError as e:
        print(f"MACHINERY-ERROR {a.pid}: {e}")
        return 2
    except Exception:
        print(f"MACHINERY-ERROR {a.pid}: unexpected exception")
        traceback.print_exc()
        return 2


if __name__ == "__main__":
    sys.exit(main())
