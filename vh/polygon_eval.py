"""T2 replay of Polygon2.tla records into coxeter.shapes.Polygon / ConvexPolygon (C04, C06, parts of C09)."""
import math
import warnings
from fractions import Fraction as F

from . import placement as plc
from .placement import Placement, dot, fl
from .runner import TAU

warnings.filterwarnings("ignore")


def base_values(rec):
    a2 = rec["area2"]
    return dict(
        A=F(a2, 2),
        c=[F(rec["cnum"][0], 3 * a2), F(rec["cnum"][1], 3 * a2), F(0)],
        mxx=F(rec["m24"][0], 24), myy=F(rec["m24"][1], 24), mxy=F(rec["m24"][2], 24),
        sg=1 if rec["ccw"] else -1,
    )


def expected(rec, pl, nz):
    """Exact (Fraction) expectations for the polygon of rec under placement pl, normal R.(0,0,nz)."""
    b = base_values(rec)
    s = pl.s
    A = s * s * b["A"]
    n = pl.rot([0, 0, nz])
    c = pl.point(b["c"])
    jc0 = b["mxx"] + b["myy"] - b["A"] * (b["c"][0] ** 2 + b["c"][1] ** 2)
    jc = s ** 4 * jc0
    cn = dot(c, n)
    cperp = [c[i] - cn * n[i] for i in range(3)]
    out = dict(area=A, signed_area=A * b["sg"] * nz, normal=n, centroid=c,
               polar=jc + A * dot(cperp, cperp),
               inertia=plc.madd(plc.mscale(jc, plc.outer(n, n)), plc.parallel_axis(c, A)))
    if pl.is_identity_rotation and nz == 1:
        tx, ty = pl.t[0], pl.t[1]
        A0, cx, cy = b["A"], b["c"][0], b["c"][1]
        out["planar"] = [
            s * s * (s * s * b["myy"] + 2 * s * ty * A0 * cy + ty * ty * A0),
            s * s * (s * s * b["mxx"] + 2 * s * tx * A0 * cx + tx * tx * A0),
            s * s * (s * s * b["mxy"] + s * tx * A0 * cy + s * ty * A0 * cx + tx * ty * A0),
        ]
    out["perimeter"] = float(s) * math.fsum(math.sqrt(e) for e in rec["edge2"])
    return out


def poly_tags(rec, nz, variant, pl):
    v = rec["v"]
    o = (v[1][0] - v[0][0]) * (v[2][1] - v[0][1]) - (v[1][1] - v[0][1]) * (v[2][0] - v[0][0])
    sg = (1 if rec["ccw"] else -1)
    tags = ["ccw_about_normal" if sg * nz > 0 else "cw_about_normal",
            "convex" if rec["convex"] else "nonconvex", variant + "_normal",
            "n%d" % len(v)]
    if o * sg < 0:
        tags.append("reflex_first_corner")
    if o == 0:
        tags.append("collinear_first_corner")
    if rec["m24"][2] < 0:
        tags.append("ixy_negative")
    tags += pl.tags()
    return tags


def has_straight_angle(v):
    n = len(v)
    for i in range(n):
        a, b, c = v[i], v[(i + 1) % n], v[(i + 2) % n]
        if (b[0] - a[0]) * (c[1] - a[1]) - (b[1] - a[1]) * (c[0] - a[0]) == 0:
            return True
    return False


def eval_case(case):
    """case = dict(rec, pl(json), nz, variant in {'explicit','default'}, cls in {'Polygon','ConvexPolygon'},
    which in {'measures','inside','both'}).  Returns (mismatches, stats)."""
    import numpy as np
    import coxeter
    rec = case["rec"]
    pl = Placement.from_json(case["pl"])
    nz = case["nz"]
    variant = case["variant"]
    cls = case.get("cls", "Polygon")
    which = case.get("which", "both")
    v = rec["v"]
    tags = poly_tags(rec, nz, variant, pl)
    out = []
    maxrel = {}

    def bad(obs, msg, exp=None, got=None):
        out.append(({"cls": cls, "obs": obs, "tags": tags, "msg": msg},
                    {"case": case, "obs": obs, "expected": fl(exp) if exp is not None else None,
                     "observed": got}))

    verts = np.array(fl(pl.points([(p[0], p[1], 0) for p in v])), dtype=float)
    ex = expected(rec, pl, nz)
    if variant == "explicit":
        # deliberately not unit length: clearly (x 3), or by a few 1e-6 as a hand-typed or file-read unit normal would be
        nvec = [float(x) * case.get("nlen", 3.0) for x in ex["normal"]]
    else:
        nvec = None
    snapshot = verts.copy()
    try:
        if cls == "Polygon":
            P = coxeter.shapes.Polygon(verts, normal=nvec)
        else:
            P = coxeter.shapes.ConvexPolygon(verts, normal=nvec)
    except Exception as e:
        if has_straight_angle(v):
            return out, {"unclear": 1, "maxrel": maxrel}
        bad("construct", f"valid simple polygon rejected: {type(e).__name__}: {e}")
        return out, {"maxrel": maxrel}
    if not np.array_equal(snapshot, verts):
        bad("construct_args", "constructor modified the caller's vertex array")
    diam = float(np.max(np.linalg.norm(verts[:, None, :] - verts[None, :, :], axis=-1)))
    far = float(np.max(np.linalg.norm(verts, axis=-1)))
    mlen = diam + far

    def close(kind, e, o, mag, obs):
        e = np.asarray(fl(e), dtype=float).ravel()
        try:
            o = np.asarray(o, dtype=float).ravel()
        except Exception:
            return False
        if e.shape != o.shape or not np.all(np.isfinite(o)):
            return False
        mag = abs(float(mag)) or 1.0
        w = float(np.max(np.abs(e - o))) / mag if e.size else 0.0
        if w <= TAU[kind]:
            maxrel[kind] = max(maxrel.get(kind, 0.0), w)
            return True
        return False

    if which in ("measures", "both"):
        if cls == "Polygon" and not np.array_equal(P.vertices, snapshot):
            bad("vertices", "Polygon changed the vertex list", snapshot.tolist(), P.vertices.tolist())
        if not close("dimensionless", ex["normal"], P.normal, 1.0, "normal"):
            bad("normal", "normal differs", ex["normal"], np.asarray(P.normal).tolist())
        checks = [
            ("area", "area", ex["area"], lambda: P.area, float(ex["area"])),
            # ConvexPolygon re-orders its vertices counter-clockwise about the normal: signed area = +area
            ("signed_area", "area", ex["signed_area"] if cls == "Polygon" else ex["area"],
             lambda: P.signed_area, float(ex["area"])),
            ("perimeter", "length", ex["perimeter"], lambda: P.perimeter, ex["perimeter"]),
            ("centroid", "point", ex["centroid"], lambda: P.centroid, mlen),
            ("center", "point", ex["centroid"], lambda: P.center, mlen),
            ("polar_moment_inertia", "inertia", ex["polar"], lambda: P.polar_moment_inertia,
             float(ex["polar"])),
            ("inertia_tensor", "inertia", ex["inertia"], lambda: P.inertia_tensor,
             math.sqrt(sum(float(x) ** 2 for r in ex["inertia"] for x in r))),
        ]
        if "planar" in ex:
            checks.append(("planar_moments_inertia", "inertia", ex["planar"],
                           lambda: list(P.planar_moments_inertia),
                           math.sqrt(sum(float(x) ** 2 for x in ex["planar"]))))
        for obs, kind, e, getter, mag in checks:
            try:
                o = getter()
            except Exception as exn:
                bad(obs, f"raised {type(exn).__name__}: {exn}", e)
                continue
            if not close(kind, e, o, mag, obs):
                bad(obs, "value differs from the exact integral", e, np.asarray(o, dtype=float).tolist())
        if cls == "ConvexPolygon":
            # vertices must be the input's cycle, counter-clockwise about the normal, starting at input[0]
            sg = (1 if rec["ccw"] else -1) * nz
            want = snapshot if sg > 0 else np.concatenate([snapshot[:1], snapshot[:0:-1]])
            if not np.array_equal(np.asarray(P.vertices), want):
                bad("vertices", "ConvexPolygon order is not the ccw cycle from input vertex 0",
                    want.tolist(), np.asarray(P.vertices).tolist())
    if which in ("inside", "both"):
        q = rec["q2"]
        mem = rec["mem"]
        pts = np.array(fl(pl.points([(F(p[0], 2), F(p[1], 2), 0) for p in q])), dtype=float)
        keep = [i for i, m in enumerate(mem) if m != 2]
        want = np.array([mem[i] == 1 for i in keep])
        psnap = pts.copy()
        try:
            got = np.asarray(P.is_inside(pts[keep]))
            if got.shape != want.shape:
                bad("is_inside", f"batch result has shape {got.shape}, expected {want.shape}")
            elif not np.array_equal(got.astype(bool), want):
                k = int(np.nonzero(got.astype(bool) != want)[0][0])
                bad("is_inside", f"point {pts[keep][k].tolist()} (half-lattice {q[keep[k]]}) reported "
                    f"{bool(got[k])}, exact membership {bool(want[k])}", want.tolist(), got.tolist())
            if not np.array_equal(pts, psnap):
                bad("is_inside_args", "is_inside modified the caller's points")
            step = case.get("single_step", 5)
            for j in range(0, len(keep), step):
                g1 = np.asarray(P.is_inside(pts[keep[j]]))
                if g1.shape != (1,) or bool(g1[0]) != bool(want[j]):
                    bad("is_inside_single", f"single-point call on {pts[keep[j]].tolist()} gave {g1.tolist()}, "
                        f"exact membership {bool(want[j])}")
                    break
            if np.all(verts[:, 2] == 0.0):
                g2 = np.asarray(P.is_inside(pts[keep][:, :2]))
                if g2.shape != want.shape or not np.array_equal(g2.astype(bool), want):
                    bad("is_inside_N2", "(N,2) input disagrees with exact membership", want.tolist(), g2.tolist())
        except Exception as exn:
            bad("is_inside", f"raised {type(exn).__name__}: {exn}")
    return out, {"maxrel": maxrel, "unclear": sum(1 for m in rec["mem"] if m == 2) if which != "measures" else 0}
