"""Rational similarity placements g = (s, R, t) and the covariance laws of spec/Placement.tla applied in
exact Fraction arithmetic.  R comes from an integer quaternion, so every entry is rational."""
from fractions import Fraction as F


def quat_matrix(q):
    w, x, y, z = q
    n = w * w + x * x + y * y + z * z
    m = [[w * w + x * x - y * y - z * z, 2 * (x * y - w * z), 2 * (x * z + w * y)],
         [2 * (x * y + w * z), w * w - x * x + y * y - z * z, 2 * (y * z - w * x)],
         [2 * (x * z - w * y), 2 * (y * z + w * x), w * w - x * x - y * y + z * z]]
    return [[F(v, n) for v in row] for row in m]


IDENT = [[F(1), F(0), F(0)], [F(0), F(1), F(0)], [F(0), F(0), F(1)]]


class Placement:
    def __init__(self, s=1, q=(1, 0, 0, 0), t=(0, 0, 0), name=None):
        self.s = F(s)
        self.q = tuple(q)
        self.R = quat_matrix(q)
        self.t = [F(v) for v in t]
        self.name = name or f"s={self.s},q={self.q},t={tuple(str(v) for v in self.t)}"

    @property
    def is_identity_rotation(self):
        return self.R == IDENT

    def tags(self):
        out = []
        if self.s != 1:
            out.append("scaled")
        if not self.is_identity_rotation:
            out.append("rotated")
        if any(self.t):
            out.append("translated")
        return out or ["identity_placement"]

    # points / vectors ------------------------------------------------------------
    def rot(self, v):
        v = [F(x) for x in v]
        return [sum(self.R[i][j] * v[j] for j in range(3)) for i in range(3)]

    def rot_inv(self, v):
        v = [F(x) for x in v]
        return [sum(self.R[j][i] * v[j] for j in range(3)) for i in range(3)]

    def point(self, p):
        p = list(p) + [0] * (3 - len(p))
        r = self.rot(p)
        return [self.s * r[i] + self.t[i] for i in range(3)]

    def points(self, ps):
        return [self.point(p) for p in ps]

    def tensor(self, m):
        """R M R^T for a 3x3 Fraction matrix."""
        R = self.R
        rm = [[sum(R[i][k] * m[k][j] for k in range(3)) for j in range(3)] for i in range(3)]
        return [[sum(rm[i][k] * R[j][k] for k in range(3)) for j in range(3)] for i in range(3)]

    def to_json(self):
        return {"s": [self.s.numerator, self.s.denominator], "q": list(self.q),
                "t": [[v.numerator, v.denominator] for v in self.t]}

    @staticmethod
    def from_json(d):
        return Placement(F(*d["s"]), tuple(d["q"]), [F(*v) for v in d["t"]])


def dot(a, b):
    return sum(x * y for x, y in zip(a, b))


def parallel_axis(c, mass):
    """mass * (|c|^2 I - c c^T)"""
    cc = dot(c, c)
    return [[mass * ((cc if i == j else 0) - c[i] * c[j]) for j in range(3)] for i in range(3)]


def madd(a, b):
    return [[a[i][j] + b[i][j] for j in range(3)] for i in range(3)]


def mscale(k, a):
    return [[k * a[i][j] for j in range(3)] for i in range(3)]


def outer(a, b):
    return [[a[i] * b[j] for j in range(3)] for i in range(3)]


def fl(x):
    if isinstance(x, list):
        return [fl(v) for v in x]
    return float(x)


# a standard palette of placements (DESIGN 5: offsets of ~10 diameters, rational rotations with
# denominators 9, 4, 5, 49, scale factors 10^-3 .. 10^3)
def palette(size, tier="quick"):
    """size: an integer length comparable to the diameter of the base shape."""
    d = int(size)
    P = [
        Placement(name="identity"),
        Placement(t=(10 * d, -7 * d, 3 * d), name="offset10"),
        Placement(q=(1, 2, 2, 0), t=(F(1, 2), -2, F(7, 3)), name="rot9"),
        Placement(q=(1, 1, 1, 1), t=(-3 * d, 2 * d, 5 * d), name="rot120"),
        Placement(s=F(1, 1000), q=(2, 1, 0, 0), t=(F(1, 250), F(-3, 500), F(1, 125)), name="milli_rot5"),
        Placement(s=1000, q=(0, 0, 1, 0), t=(0, 0, 0), name="kilo_flip"),
        # a plane / an edge leaning one milliradian from the coordinate planes: "already aligned" shortcuts must be exact tests
        Placement(q=(2000, 1, 0, 0), t=(F(1, 3), -d, 2 * d), name="tilt_1e-3_rad"),
        # a hundred thousand diameters from the origin ("far from the origin"): tolerances relative to coordinate magnitudes and
        # formulas that cancel against the offset show here; the doubles still resolve the shape to 1e-11 of its size
        Placement(t=(120011 * d, -70003 * d, 30013 * d), name="far_1e5_diameters"),
        # micrometre-sized copy a few diameters from the origin: absolute tolerances (1e-5 .. 1e-8) must not matter
        Placement(s=F(1, 10 ** 6), q=(1, 2, 2, 0), t=(F(3 * d, 10 ** 6), F(-2 * d, 10 ** 6), F(d, 10 ** 6)), name="micro_rot9_offset"),
    ]
    if tier == "thorough":
        P += [
            Placement(q=(6, 3, 2, 0), t=(-d, 9 * d, -4 * d), name="rot49"),
            Placement(q=(0, 1, 0, 0), t=(1, 1, 1), name="flip_x"),
            Placement(s=F(1, 3), q=(3, -1, 1, 5), t=(F(2, 7), 0, -1), name="third_rot36"),
            Placement(s=7, q=(1, 0, 0, 1), t=(0, 40 * d, 0), name="seven_rot90z"),
            Placement(s=F(1, 100), t=(F(1, 10), F(1, 10), F(-1, 10)), name="centi"),
            Placement(s=1000, q=(1, 2, 3, 4), t=(5000 * d, -5000 * d, 2500 * d), name="kilo_rot30_off"),
        ]
    return P
