"""Shared plumbing: locations, seeds, scratch space, importing coxeter from the tree under test."""
import atexit
import hashlib
import json
import os
import shutil
import subprocess
import sys
import tempfile
import time

VERIF = os.path.dirname(os.path.dirname(os.path.abspath(__file__)))
SPEC = os.path.join(VERIF, "spec")
REPO = os.environ.get("VERIF_REPO", "/repo")
SEED = int(os.environ.get("VERIF_SEED", "0") or 0)
NCPU = min(16, os.cpu_count() or 1)
TLA_CP = "/opt/veriftools/tla/tla2tools.jar:/opt/veriftools/tla/CommunityModules-deps.jar"

# every "import coxeter" of the harness resolves to the tree under test (the venv's editable install points at /repo)
if REPO not in sys.path:
    sys.path.insert(0, REPO)

_scratch = None


def scratch():
    """A private scratch directory outside /repo and /verif, removed at exit."""
    global _scratch
    if _scratch is None:
        base = "/var/tmp" if os.path.isdir("/var/tmp") else tempfile.gettempdir()
        _scratch = tempfile.mkdtemp(prefix="verif-scratch.", dir=base)
        atexit.register(shutil.rmtree, _scratch, True)
    return _scratch


def import_coxeter():
    """Import coxeter from the tree under test (VERIF_REPO, default /repo)."""
    if REPO not in sys.path:
        sys.path.insert(0, REPO)
    import coxeter  # noqa: F401

    got = os.path.dirname(os.path.dirname(os.path.abspath(coxeter.__file__)))
    if os.path.realpath(got) != os.path.realpath(REPO):
        raise MachineryError(f"coxeter imported from {got}, expected {REPO}")
    return coxeter


def repo_head():
    try:
        h = subprocess.run(["git", "-C", REPO, "rev-parse", "--short", "HEAD"],
                           capture_output=True, text=True).stdout.strip()
        d = subprocess.run(["git", "-C", REPO, "status", "--porcelain", "--", "coxeter"],
                           capture_output=True, text=True).stdout.strip()
        return h + ("+dirty" if d else "")
    except Exception:
        return "unknown"


class MachineryError(Exception):
    """The machinery (not the implementation) failed: exit status 2."""


def sha(obj):
    return hashlib.sha1(json.dumps(obj, sort_keys=True, default=str).encode()).hexdigest()[:12]


class Timer:
    def __init__(self):
        self.t0 = time.time()

    def s(self):
        return round(time.time() - self.t0, 2)
