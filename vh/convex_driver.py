"""Shared driver for the checks that replay Convex3.tla states (C01, C07, C05, C11, C13 ...)."""
import json
import random

from . import tlc
from .convex_eval import eval_case
from .placement import palette
from .polygon_driver import h
from .pool import pmap

CFG_T1 = """SPECIFICATION Spec
INVARIANT TypeOK
INVARIANT T1_All
CHECK_DEADLOCK FALSE
"""
CFG_EMIT = """SPECIFICATION Spec
VIEW ViewV
INVARIANT Emit
CHECK_DEADLOCK FALSE
"""


def consts(universe, minpts, maxpts, off, emit, initall=True, points=False, curv=False, rnd=False):
    return (f"CONSTANTS\n U <- {universe}\n MinPts = {minpts}\n MaxPts = {maxpts}\n Off <- {off}\n "
            f"EmitOn = {'TRUE' if emit else 'FALSE'}\n InitAll = {'TRUE' if initall else 'FALSE'}\n "
            f"WithPoints = {'TRUE' if points else 'FALSE'}\n WithCurv = {'TRUE' if curv else 'FALSE'}\n WithRound = {'TRUE' if rnd else 'FALSE'}\n")


def t1(ctx, universe, maxpts, off="Zero", timeout=1500):
    res = tlc.run("MC_Convex3", CFG_T1 + consts(universe, 4, maxpts, off, False), timeout=timeout)
    ctx.tlc(res, f"Convex3 T1 (AlgConvex = Geom3, Euler, edges) U={universe} MaxPts={maxpts} Off={off}")
    if res.violated:
        import re
        m = re.search(r'"T1-FAILED", "(\w+)"', res.stdout)
        res.violated = m.group(1) if m else res.violated
        ctx.violation({"cls": "spec", "obs": res.violated, "tags": ["T1"],
                       "msg": f"design-level counter-example: invariant {res.violated} fails in Convex3.tla"},
                      {"tlc_tail": res.stdout[-3000:]})
    return res


def emit(ctx, universe, maxpts, off="Zero", simulate=None, depth=None, timeout=1500, minpts=4, points=False, curv=False, rnd=False):
    res = tlc.run("MC_Convex3", CFG_EMIT + consts(universe, minpts, maxpts, off, True, initall=not simulate,
                                                   points=points, curv=curv, rnd=rnd),
                  timeout=timeout, simulate=simulate, depth=depth, workers=4 if simulate else None)
    ctx.tlc(res, f"Convex3 emission U={universe} MaxPts={maxpts} Off={off}" + (f" simulate={simulate}" if simulate else ""))
    seen = {}
    for fr in res.records:
        r = fr["r"]
        if "p" in fr:
            r["q"] = fr["p"]["q"]
            r["mem"] = fr["p"]["mem"]
        if "c" in fr:
            r["curv"] = fr["c"]
        if "d" in fr:
            r["dq"] = fr["d"]["q"]
            r["d2"] = fr["d"]["d2"]
        seen.setdefault(json.dumps(r["v"]), r)
    return list(seen.values())


def build_cases(recs, which, tier, seed, n_placements, n_perms=1):
    cases = []
    from fractions import Fraction as F
    from .placement import Placement
    # a tiny absolute scale with an offset of a few diameters: absolute tolerances (1e-8) must not matter
    nano = Placement(s=F(1, 10 ** 9), q=(1, 2, 2, 0), t=(F(7, 10 ** 9), F(-4, 10 ** 9), F(5, 10 ** 9)), name="nano_rot9_offset")
    for r in recs:
        pal = palette(7, tier) + [nano]
        start = h(r["v"], seed)
        chosen = [pal[0]] + [pal[1:][(start + j) % (len(pal) - 1)] for j in range(min(n_placements, len(pal) - 1))]
        rnd = random.Random(start)
        n = len(r["v"])
        for ip, pl in enumerate(chosen):
            perms = [None]
            for _ in range(n_perms if ip == 0 else 0):
                p = list(range(n))
                rnd.shuffle(p)
                perms.append(p)
            if ip > 0 and n_perms:
                p = list(range(n))
                rnd.shuffle(p)
                perms = [p]
            for p in perms:
                cases.append({"rec": r, "pl": pl.to_json(), "perm": p, "which": which})
    return cases


def replay(ctx, cases, evalfn=eval_case):
    results = pmap(evalfn, cases)
    for case, (mism, stats) in zip(cases, results):
        key = (json.dumps(case["rec"]["v"]), json.dumps(case["pl"]), json.dumps(case.get("perm")),
               json.dumps(case.get("extra")))
        trivial = len(case["rec"]["v"]) == 4 and case["pl"]["q"] == [1, 0, 0, 0] and case["pl"]["s"] == [1, 1] \
            and not any(t[0] for t in case["pl"]["t"]) and not case.get("perm")
        ctx.case(key, nontrivial=not trivial,
                 sample={"vertices": case["rec"]["v"], "placement": case["pl"], "perm": case.get("perm"),
                         "expected": {"vol6": case["rec"]["vol6"], "cen24": case["rec"]["cen24"],
                                      "n_facets": len(case["rec"]["facets"])}})
        ctx.traces += 1
        ctx.unclear += stats.get("unclear", 0)
        for k, w in stats.get("maxrel", {}).items():
            ctx.maxrel[k] = max(ctx.maxrel.get(k, 0.0), w)
        for sig, detail in mism:
            ctx.violation(sig, detail)


def replay_record(rec, evalfn=eval_case):
    from .pool import _init
    _init()
    mism, _ = evalfn(rec["detail"]["case"])
    return [f"{s['cls']}.{s['obs']}: {s['msg']}" for s, _ in mism if s["obs"] == rec["signature"]["obs"]] or \
           [f"{s['cls']}.{s['obs']}: {s['msg']}" for s, _ in mism]
