"""T2 for layer M: one implementation test per transition of the state graph of spec/ShapeMachine.tla
(C03 coherence under histories, C08 size setters).  Every history is executed on a real object; after each
step the full public projection is compared with (a) the spec's predictions and (b) a freshly constructed
object with the same current vertices / faces / normal / radius."""
import functools
import json
import math
import random
import warnings
from collections import deque
from fractions import Fraction as F

from . import tlc
from .pool import pmap

warnings.filterwarnings("ignore")

CFG = """SPECIFICATION Spec
INVARIANT Coherent
INVARIANT NoMirror
PROPERTY FailAtomic
PROPERTY SetterSimilar
PROPERTY BadTargetRefused
PROPERTY NearSetterSimilar
PROPERTY BadCentreAtomic
PROPERTY QueryPure
VIEW ViewSt
CHECK_DEADLOCK FALSE
"""

TARGETS = {"origin": (0.0, 0.0, 0.0), "target": (5.0, -3.0, 2.0)}

# ---- base shapes ------------------------------------------------------------------------------------------


def _box(a, b, c, off):
    return [[x + off[0], y + off[1], z + off[2]] for x in (0, a) for y in (0, b) for z in (0, c)]


def bases(cls):
    """name -> constructor spec; all coordinates are integers or simple rationals, off-origin."""
    wedge = [[7, -4, 5], [11, -4, 5], [7, -1, 5], [8, -3, 10], [10, -2, 7]]
    kite = [[20, -15], [32, -10], [20, -1], [8, -10]]
    rect = [[3, 4], [5, 4], [5, 5], [3, 5]]
    tri = [[-6, 2], [-2, 2], [-6, 5]]
    # clockwise non-convex pentagon in a tilted plane: x = u, y = (3v)/5 ... keep rational via quaternion (1,2,2,0)
    if cls == "ConvexPolyhedron":
        # wedge5_nano: the same wedge in nanometres (coordinates 4e-9 .. 11e-9): absolute tolerances must not matter
        return {"wedge5": dict(v=wedge), "box123": dict(v=_box(1, 2, 3, (5, 5, -7))), "cube": dict(v=_box(2, 2, 2, (-9, 4, 3))),
                "wedge5_nano": dict(v=wedge, scale=1e-9),
                # a hundred thousand sizes from the origin: whatever is re-derived after a mutation must not cancel against the offset
                "wedge5_far": dict(v=wedge, shift=(300000.0, -200000.0, 100000.0)),
                # the mean of the vertices is the origin, the centroid (0, 0, 1/4) is not
                "pyr_vmean0": dict(v=[[1, 1, -1], [-1, 1, -1], [1, -1, -1], [-1, -1, -1], [0, 0, 4]])}
    if cls == "Polyhedron":
        return {"tricube": dict(v=_box(2, 2, 2, (-9, 4, 3)), faces="tri"),
                "wedge5": dict(v=wedge, faces="hull"),
                "box123": dict(v=_box(1, 2, 3, (5, 5, -7)), faces="hull"),
                "wedge5_nano": dict(v=wedge, faces="hull", scale=1e-9),
                "pyr_vmean0": dict(v=[[1, 1, -1], [-1, 1, -1], [1, -1, -1], [-1, -1, -1], [0, 0, 4]], faces="hull")}
    if cls == "ConvexSpheropolyhedron":
        return {"box123_r": dict(v=_box(1, 2, 3, (5, 5, -7)), r=0.5), "wedge5_r": dict(v=wedge, r=0.25),
                "wedge5_r_nano": dict(v=wedge, r=0.25e-9, scale=1e-9)}
    if cls == "Polygon":
        return {"dart_cw": dict(v=[[4, 1], [6, 7], [9, 1], [6, 3]][::-1], tilt=True),
                "rect": dict(v=rect), "pent": dict(v=[[0, 0], [4, 0], [5, 3], [2, 5], [-1, 2]], shift=(30, -20)),
                # explicit normal opposite to the one implied by the first corner (clockwise about the given normal)
                "dart_negnormal": dict(v=[[4, 1], [6, 7], [9, 1], [6, 3]], tilt=True, flipnormal=True),
                "rect_negnormal": dict(v=rect, flipnormal=True)}
    if cls == "ConvexPolygon":
        return {"kite": dict(v=kite), "rect": dict(v=rect), "tri": dict(v=tri, tilt=True)}
    if cls == "ConvexSpheropolygon":
        return {"kite_r": dict(v=kite, r=0.5), "tri_r": dict(v=tri, r=1.5)}
    if cls == "Circle":
        return {"circle": dict(ax=[1.5], c=[3.0, -2.5, 0.0]), "circle_far": dict(ax=[0.004], c=[-20.0, 11.0, -4.0])}
    if cls == "Ellipse":
        return {"ellipse_ab": dict(ax=[1.25, 3.0], c=[3.0, -2.5, 0.0]), "ellipse_ba": dict(ax=[7.0, 0.5], c=[-6.0, 8.0, 1.0])}
    if cls == "Sphere":
        return {"sphere": dict(ax=[1.5], c=[3.0, -2.5, 7.0 / 3]), "sphere_far": dict(ax=[250.0], c=[-2000.0, 1100.0, -400.0])}
    if cls == "Ellipsoid":
        return {"ellipsoid_abc": dict(ax=[1.25, 3.0, 2.0], c=[3.0, -2.5, 7.0 / 3]),
                "ellipsoid_cba": dict(ax=[5.0, 0.5, 0.125], c=[-6.0, 8.0, 1.0]),
                # a hundred thousand sizes from the origin: what is reported about the centred shape must not be obtained by
                # subtracting the offset again
                "ellipsoid_far": dict(ax=[1.0, 3.0, 2.0], c=[300000.0, -200000.0, 100000.0])}
    raise KeyError(cls)


CURVED = ("Circle", "Ellipse", "Sphere", "Ellipsoid")


def _tilt(pts2):
    from .placement import Placement
    pl = Placement(q=(1, 2, 2, 0), t=(F(1, 2), -2, F(7, 3)))
    return [[float(x) for x in pl.point((p[0], p[1], 0))] for p in pts2], [float(x) for x in pl.rot([0, 0, 1])]


def build(cls, spec):
    import numpy as np
    import coxeter
    S = coxeter.shapes
    if cls in CURVED:
        return getattr(S, cls)(*spec["ax"], np.array(spec["c"], dtype=float))
    v = spec["v"]
    if cls in ("Polygon", "ConvexPolygon", "ConvexSpheropolygon"):
        sh = spec.get("shift", (0, 0))
        v2 = [[p[0] + sh[0], p[1] + sh[1]] for p in v]
        if spec.get("tilt"):
            v3, n = _tilt(v2)
        else:
            v3, n = [[float(p[0]), float(p[1]), 0.0] for p in v2], None
        if spec.get("flipnormal"):
            n = [-x for x in n] if n is not None else [0.0, 0.0, -1.0]
        if cls == "Polygon":
            return S.Polygon(np.array(v3), normal=n)
        if cls == "ConvexPolygon":
            return S.ConvexPolygon(np.array(v3), normal=n)
        return S.ConvexSpheropolygon(np.array(v3), spec["r"], normal=n)
    va = np.array(v, dtype=float) * spec.get("scale", 1.0) + np.array(spec.get("shift", (0.0, 0.0, 0.0)) if len(spec.get("shift", ())) == 3 else (0.0, 0.0, 0.0))
    if cls == "ConvexPolyhedron":
        return S.ConvexPolyhedron(va)
    if cls == "ConvexSpheropolyhedron":
        return S.ConvexSpheropolyhedron(va, spec["r"])
    hull = S.ConvexPolyhedron(va)
    if spec["faces"] == "hull":
        faces = [np.array(f) for f in hull.faces]
    else:
        faces = []
        for f in hull.faces:
            f = [int(i) for i in f]
            for k in range(1, len(f) - 1):
                faces.append(np.array([f[0], f[k], f[k + 1]]))
    return S.Polyhedron(va, faces, faces_are_convex=True)


def fresh_like(obj):
    """A freshly constructed shape with the same current vertices (faces, normal, rounding radius)."""
    import numpy as np
    import coxeter
    S = coxeter.shapes
    cls = type(obj).__name__
    if cls in CURVED:
        return getattr(S, cls)(*[float(x) for x in axes_of(obj)], np.array(obj.centroid, dtype=float))
    if cls == "ConvexPolyhedron":
        return S.ConvexPolyhedron(np.array(obj.vertices, dtype=float))
    if cls == "Polyhedron":
        return S.Polyhedron(np.array(obj.vertices, dtype=float), [np.array(f) for f in obj.faces],
                            faces_are_convex=obj._faces_are_convex)
    if cls == "ConvexSpheropolyhedron":
        return S.ConvexSpheropolyhedron(np.array(obj.vertices, dtype=float), float(obj.radius))
    if cls == "Polygon":
        return S.Polygon(np.array(obj.vertices, dtype=float), normal=np.array(obj.normal, dtype=float))
    if cls == "ConvexPolygon":
        return S.ConvexPolygon(np.array(obj.vertices, dtype=float), normal=np.array(obj.normal, dtype=float))
    if cls == "ConvexSpheropolygon":
        return S.ConvexSpheropolygon(np.array(obj.vertices, dtype=float), float(obj.radius),
                                     normal=np.array(obj.normal, dtype=float))
    raise KeyError(cls)


def axes_of(obj):
    cls = type(obj).__name__
    if cls in ("Circle", "Sphere"):
        return [obj.radius]
    if cls == "Ellipse":
        return [obj.a, obj.b]
    return [obj.a, obj.b, obj.c]


def geom(obj):
    """The numbers that define the shape's point set: vertices, or (centre, semi-axes) for curved shapes."""
    import numpy as np
    if type(obj).__name__ in CURVED:
        return np.array(list(np.asarray(obj.centroid, dtype=float)) + [float(x) for x in axes_of(obj)], dtype=float)
    return np.array(obj.vertices, dtype=float)


# ---- projection ---------------------------------------------------------------------------------------------
SKIP = {"gsd_shape_spec", "polygon", "polyhedron"}       # nested objects / dicts (covered through their parts)
DEPRECATED = {"bounding_sphere", "insphere_from_center", "circumsphere_from_center", "bounding_circle",
              "incircle_from_center"}
POINTLIKE = {"centroid", "center", "vertices", "face_centroids"}


def public_properties(obj):
    names = []
    for name in dir(type(obj)):
        if name.startswith("_") or name in SKIP or name in DEPRECATED:
            continue
        attr = getattr(type(obj), name, None)
        if isinstance(attr, (property, functools.cached_property)):
            names.append(name)
    return names


def _canon_faces(faces):
    cf = []
    for f in faces:
        f = [int(i) for i in f]
        k = f.index(min(f))
        cf.append(tuple(f[k:] + f[:k]))
    return cf


FIXED_Q = [[0.3, -0.2, 0.5], [0.0, 0.0, 0.9], [1.3, 0.4, -0.7], [0.0, 0.0, 0.0]]
FIXED_ANGLES = [0.1, 1.3, 2.9, 4.4, 5.9]


def project(obj, _depth=0):
    """name -> value (float arrays, ints, ('exc', type)); index-valued members canonicalised for ConvexPolyhedron."""
    import numpy as np
    # miniball (behind minimal_bounding_*) is a randomised algorithm driven by the global generators: the same
    # seed for every projection makes equal vertex arrays give equal answers (its correctness is C13's business)
    random.seed(12345)
    np.random.seed(12345)
    out = {}
    cls = type(obj).__name__
    order = None
    if hasattr(obj, "faces"):
        try:
            cf = _canon_faces(obj.faces)
            order = sorted(range(len(cf)), key=lambda i: cf[i])
            out["faces"] = [cf[i] for i in order]
            rank = {old: new for new, old in enumerate(order)}
            out["neighbors"] = [sorted(rank[int(j)] for j in obj.neighbors[i]) for i in order]
        except Exception as e:
            out["faces"] = ("exc", type(e).__name__)
    for name in public_properties(obj):
        if name in ("faces", "neighbors", "simplices"):
            continue
        try:
            with warnings.catch_warnings():
                warnings.simplefilter("ignore")
                val = getattr(obj, name)
        except Exception as e:
            out[name] = ("exc", type(e).__name__)
            continue
        tn = type(val).__name__
        if tn in ("Sphere", "Circle"):
            out[name + ".radius"] = float(val.radius)
            out[name + ".center"] = np.asarray(val.centroid, dtype=float)
        elif isinstance(val, (int, float, np.integer, np.floating)):
            out[name] = float(val)
        elif isinstance(val, np.ndarray):
            a = np.array(val, dtype=float)
            if order is not None and name in ("equations", "normals", "face_centroids") and len(a) == len(order):
                a = a[order]
            out[name] = a
        elif isinstance(val, (list, tuple)):
            try:
                a = np.array(val, dtype=float)
                out[name] = a
            except Exception:
                out[name] = ("opaque", tn)
    # queries that take arguments, at fixed arguments (a query must depend on the current abstract state only, whatever
    # was asked or cached before): the form factor at four wave vectors, the radial distance at five angles
    try:
        fq = np.asarray(obj.compute_form_factor_amplitude(np.array(FIXED_Q)))
        out["compute_form_factor_amplitude(q)"] = np.concatenate([np.real(fq).ravel(), np.imag(fq).ravel()])
    except Exception as e:
        out["compute_form_factor_amplitude(q)"] = ("exc", type(e).__name__)
    try:
        out["distance_to_surface(angles)"] = np.asarray(obj.distance_to_surface(np.array(FIXED_ANGLES)), dtype=float)
    except Exception as e:
        out["distance_to_surface(angles)"] = ("exc", type(e).__name__)
    if hasattr(obj, "get_face_area"):
        try:
            a = np.asarray(obj.get_face_area(), dtype=float)
            out["get_face_area()"] = a[order] if order is not None and len(a) == len(order) else a
        except Exception as e:
            out["get_face_area()"] = ("exc", type(e).__name__)
    # containment at points laid out around the current vertices (inside, near the surface, in a rounding layer, outside); the
    # factors are arbitrary non-round numbers so that no point sits on a boundary of a lattice base
    if hasattr(obj, "is_inside") and hasattr(obj, "vertices"):
        try:
            v = np.asarray(obj.vertices, dtype=float)
            m = v.mean(axis=0)
            w = np.roll(v, 1, axis=0)
            pts = np.concatenate([m + f * (0.6180339 * v + 0.3819661 * w - m) for f in (0.3713, 0.8291, 1.0937, 1.6113)])
            out["is_inside(points)"] = np.asarray(obj.is_inside(pts)).astype(float)
        except Exception as e:
            out["is_inside(points)"] = ("exc", type(e).__name__)
    # the live core of a rounded shape is a public handle: what it answers must follow the rounded shape's mutations too
    if _depth == 0:
        for attr in ("polyhedron", "polygon"):
            core = None
            try:
                core = getattr(obj, attr, None)
            except Exception:
                core = None
            if core is not None and hasattr(core, "vertices"):
                for k, val in project(core, _depth=1).items():
                    out[attr + "." + k] = val
    return out


def raw_state(obj):
    """Bit-exact snapshot of everything the object stores that determines the shape (for FailAtomic)."""
    import numpy as np
    d = {}
    core = obj
    for attr in ("_polyhedron", "_polygon"):
        if hasattr(obj, attr):
            core = getattr(obj, attr)
    for name in ("_vertices", "_normal", "_equations", "_simplex_equations", "_centroid", "_volume", "_area",
                 "_a", "_b", "_c"):
        if hasattr(core, name):
            d[name] = np.array(getattr(core, name)).tobytes()
    if hasattr(core, "_faces"):
        d["_faces"] = [tuple(int(i) for i in f) for f in core._faces]
    if hasattr(obj, "_radius"):
        d["_radius"] = float(obj._radius)
    return d


def compare(a, b, mlen, skip=()):
    """Names whose values differ between two projections."""
    import numpy as np
    bad = []
    for k in sorted(set(a) | set(b)):
        if k in skip:
            continue
        if k not in a or k not in b:
            bad.append((k, "missing"))
            continue
        x, y = a[k], b[k]
        if isinstance(x, tuple) or isinstance(y, tuple) or isinstance(x, list) or isinstance(y, list):
            if isinstance(x, np.ndarray) or isinstance(y, np.ndarray) or x != y:
                bad.append((k, f"{x!r} vs {y!r}"[:200]))
            continue
        x = np.asarray(x, dtype=float)
        y = np.asarray(y, dtype=float)
        if x.shape != y.shape:
            bad.append((k, f"shape {x.shape} vs {y.shape}"))
            continue
        if x.size == 0:
            continue
        if not (np.all(np.isfinite(x)) and np.all(np.isfinite(y))):
            if not np.array_equal(np.isfinite(x), np.isfinite(y)) or not np.all(np.isfinite(y)):
                bad.append((k, "non-finite"))
            continue
        kk = k.split(".", 1)[1] if k.startswith(("polyhedron.", "polygon.")) else k      # members of the live core
        base = kk.split(".")[0]
        pointlike = base in POINTLIKE or kk.endswith(".center")
        mag = mlen if pointlike else max(float(np.max(np.abs(y))), 1e-300)
        if kk in ("equations",):
            mag = max(mlen, 1.0)
        tol = 1e-6 if "minimal_bounding" in kk else 1e-9
        if float(np.max(np.abs(x - y))) > tol * mag:
            bad.append((k, f"max |diff| {float(np.max(np.abs(x - y))):.3e} vs magnitude {mag:.3e}"))
    return bad


# ---- executing a history ---------------------------------------------------------------------------------------
DEG = {"volume": 3, "surface_area": 2, "area": 2}


def apply_op(obj, ret, unit=1.0):
    """Perform the call described by ret; returns (exception name or 'none', info)."""
    import numpy as np
    op, args = ret["op"], ret["args"]
    info = {}
    try:
        with warnings.catch_warnings():
            warnings.simplefilter("ignore")
            if op in ("set", "setnear"):
                p, lam = args[0], F(args[1][0], args[1][1])
                cur = getattr(obj, p)
                target = float(cur) * float(lam) ** DEG.get(p, 1)
                info["target"] = target
                setattr(obj, p, target)
            elif op == "setbad":
                p, b = args
                try:
                    cur = abs(float(getattr(obj, p)))
                except Exception:
                    cur = 1.0
                value = {"zero": 0.0, "negative": -cur, "nan": float("nan")}[b]
                setattr(obj, p, value)
            elif op == "centroid":
                if args[0] == "nudge":
                    # a move that is small only in numpy's default sense (rtol 1e-5, atol 1e-8): refreshes must not be gated by isclose
                    try:
                        cur = np.asarray(getattr(obj, args[1]), dtype=float)
                    except Exception:
                        cur = np.zeros(3)          # classes without a centroid: the assignment below raises as for any target
                    info["target"] = cur + 1e-6 * np.abs(cur) * np.array([1.0, -1.0, 1.0]) + np.array([5e-9, 5e-9, -5e-9])
                else:
                    info["target"] = np.array(TARGETS[args[0]]) * unit      # in the units of the base shape
                setattr(obj, args[1], info["target"].copy())
            elif op == "centroidbad":
                bad_value = {"short": [1.5, -2.5], "long": (1.0, 2.0, 3.0, 4.0), "none": [None, 0.0, 1.0], "matrix": np.ones((2, 3))}[args[0]]
                setattr(obj, args[1], bad_value)
            elif op == "radius":
                obj.radius = float(obj.radius) * float(F(args[0][0], args[0][1]))
            elif op == "coreset":
                core = obj.polyhedron if hasattr(obj, "polyhedron") else obj.polygon
                p, lam = args[0], F(args[1][0], args[1][1])
                target = float(getattr(core, p)) * float(lam) ** DEG.get(p, 1)
                info["target"] = target
                info["radius_before"] = float(obj.radius)
                setattr(core, p, target)
            elif op == "corecentroid":
                core = obj.polyhedron if hasattr(obj, "polyhedron") else obj.polygon
                info["core_cen_before"] = np.asarray(core.centroid, dtype=float)
                info["target"] = np.array(TARGETS[args[0]]) * unit
                core.centroid = info["target"].copy()
            elif op == "read":
                from . import history
                who = obj
                if args[0] == "core":
                    who = obj.polyhedron if hasattr(obj, "polyhedron") else obj.polygon
                history.warm(who, history._around(who, type(who).__name__ in ("ConvexPolyhedron", "Polyhedron", "ConvexSpheropolyhedron")), light=True)
            elif op == "radiusbad":
                obj.radius = -1.0
            elif op == "axis":
                target = float(getattr(obj, args[0])) * float(F(args[1][0], args[1][1]))
                info["target"] = target
                setattr(obj, args[0], target)
            elif op == "axisbad":
                cur = abs(float(getattr(obj, args[0])))
                setattr(obj, args[0], {"zero": 0.0, "negative": -cur, "nan": float("nan")}[args[1]])
            elif op == "diagonalize_inertia":
                obj.diagonalize_inertia()
            elif op == "sort_faces":
                obj.sort_faces()
            elif op == "merge_faces":
                obj.merge_faces()
            elif op == "edges":
                _ = obj.edges
            elif op == "to_hoomd":
                info["hoomd"] = obj.to_hoomd()
            else:
                raise RuntimeError("unknown op " + op)
    except Exception as e:
        return type(e).__name__, info
    return "none", info


def chirality(obj):
    import numpy as np
    v = np.asarray(obj.vertices, dtype=float)
    if len(v) < 4:
        return 0
    best = 0.0
    sign = 0
    # the first non-degenerate quadruple (fixed by index)
    for d in range(3, len(v)):
        det = float(np.linalg.det(np.array([v[1] - v[0], v[2] - v[0], v[d] - v[0]])))
        if abs(det) > best:
            best, sign = abs(det), (1 if det > 0 else -1)
    return sign


def run_history(job):
    """job: cls, base (name), hist: list of edge records (pre, ret, post). Returns list of mismatches."""
    import numpy as np
    np.random.seed(job.get("seed", 0))
    cls = job["cls"]
    spec = bases(cls)[job["base"]]
    out = []
    tags0 = [job["base"]]

    def bad(obs, msg, step, extra=None, tags=()):
        ops = [h["ret"]["op"] + (":" + str(h["ret"]["args"][0]) if h["ret"]["args"] else "") for h in job["hist"][:step + 1]]
        out.append(({"cls": cls, "obs": obs, "tags": tags0 + list(tags) + ["after_" + job["hist"][step]["ret"]["op"]],
                     "msg": f"step {step} of history {ops}: {msg}"},
                    {"job": job, "step": step, "extra": extra}))

    try:
        obj = build(cls, spec)
        base = build(cls, spec)
    except Exception as e:
        out.append(({"cls": cls, "obs": "construct", "tags": tags0, "msg": f"base shape rejected: {e}"}, {"job": job}))
        return out
    base_proj = project(base)
    base_chir = chirality(base) if cls in ("ConvexPolyhedron", "Polyhedron", "ConvexSpheropolyhedron") else 0
    scale = F(1)
    cen_pred = None
    for step, h in enumerate(job["hist"]):
        ret = h["ret"]
        before_raw = raw_state(obj)
        before_vertices = geom(obj)
        curved = cls in CURVED
        try:
            before_cen = np.array(obj.centroid, dtype=float)
        except Exception:
            before_cen = None
        exc, info = apply_op(obj, ret, spec.get("scale", 1.0))
        want = ret["exc"]
        if ret["op"] == "centroidbad":
            # a malformed centre: the specification allows refusal (with any exception, state untouched) or acceptance; what the
            # implementation does not get is a refusal that has already moved the shape
            if exc == "none":
                return out                  # accepted: the rest of the history is not defined by the specification
            want = exc
        if exc != want:
            if want == "none":
                bad(ret["op"] + ("." + str(ret["args"][0]) if ret["args"] else ""), f"raised {exc}, the specification expects the call to succeed", step, tags=["unexpected_exception"])
            else:
                bad(ret["op"] + ("." + str(ret["args"][0]) if ret["args"] else ""), f"expected {want}, got {exc}", step,
                    tags=["bad_target_accepted" if exc == "none" else "wrong_exception"])
        after_vertices = geom(obj)
        mlen = float(np.max(np.abs(after_vertices))) * 2 + 1e-300 if np.all(np.isfinite(after_vertices)) else 1.0
        if not np.all(np.isfinite(after_vertices)):
            bad("vertices", "vertices are not finite after the call", step, tags=["non_finite"])
            return out
        if exc != "none":
            if raw_state(obj) != before_raw:
                bad("fail_atomic", f"the call raised {exc} but changed the stored state of the shape", step,
                    tags=["fail_atomic"])
                return out
        elif ret["op"] in ("set", "setnear"):
            lam = F(ret["args"][1][0], ret["args"][1][1])
            scale *= lam
            expect = before_vertices * float(lam)
            if curved:      # curved shapes scale about their centre: semi-axes x lambda, centre fixed
                expect = np.concatenate([before_vertices[:3], before_vertices[3:] * float(lam)])
            if not np.allclose(after_vertices, expect, rtol=1e-9, atol=1e-9 * mlen):
                bad("similarity", f"assigning {ret['args'][0]} did not scale the shape uniformly by {lam}", step,
                    tags=["not_similarity"])
            try:
                rb = float(getattr(obj, ret["args"][0]))
                if abs(rb - info["target"]) > 1e-9 * abs(info["target"]):
                    bad("readback", f"{ret['args'][0]} reads back {rb!r} after assigning {info['target']!r}", step,
                        tags=["readback"])
            except Exception as e:
                bad("readback", f"reading {ret['args'][0]} after assignment raised {e}", step)
        elif ret["op"] == "coreset":
            lam = F(ret["args"][1][0], ret["args"][1][1])
            if not np.allclose(after_vertices, before_vertices * float(lam), rtol=1e-9, atol=1e-9 * mlen):
                bad("similarity", f"assigning the core's {ret['args'][0]} did not scale the core uniformly by {lam}", step, tags=["not_similarity"])
            if float(obj.radius) != info["radius_before"]:
                bad("radius", "resizing the core changed the rounding radius", step)
        elif ret["op"] == "centroid":
            tgt = np.asarray(info["target"], dtype=float)
            if curved:
                expect = np.concatenate([tgt, before_vertices[3:]])
            else:
                expect = before_vertices + (tgt - before_cen) if before_cen is not None else None
            if expect is not None and not np.allclose(after_vertices, expect, rtol=1e-9,
                                                      atol=1e-9 * (mlen + float(np.max(np.abs(before_vertices))))):
                bad("translation", "assigning the centroid is not a pure translation of the shape", step)
            try:
                if not np.allclose(np.asarray(obj.centroid, dtype=float), tgt, rtol=0, atol=1e-9 * (mlen + 1)):
                    bad("readback", f"centroid reads back {np.asarray(obj.centroid).tolist()} after assigning {tgt.tolist()}", step)
            except Exception as e:
                bad("readback", f"reading the centroid raised {e}", step)
        elif ret["op"] == "corecentroid":
            tgt = np.asarray(info["target"], dtype=float)
            expect = before_vertices + (tgt - info["core_cen_before"])
            if not np.allclose(after_vertices, expect, rtol=1e-9, atol=1e-9 * (mlen + float(np.max(np.abs(before_vertices))))):
                bad("translation", "assigning the centroid of the live core is not a pure translation of the rounded shape", step)
        elif ret["op"] == "read":
            # queries that move the shape and move it back may differ in the last digits (C16's allowance)
            if not np.allclose(after_vertices, before_vertices, rtol=1e-12, atol=1e-12 * mlen):
                bad("vertices", "asking questions changed the vertices", step)
        elif ret["op"] == "axis":
            k = 3 + "abc".index(ret["args"][0])
            expect = before_vertices.copy()
            expect[k] = info["target"]
            if not np.allclose(after_vertices, expect, rtol=1e-12, atol=0):
                bad("axis", f"assigning semi-axis {ret['args'][0]} changed something else or missed the target", step)
        elif ret["op"] in ("diagonalize_inertia", "to_hoomd", "sort_faces", "merge_faces", "edges", "radius"):
            if ret["op"] != "diagonalize_inertia" and not curved and not np.allclose(after_vertices, before_vertices, rtol=1e-12, atol=1e-12 * mlen):
                bad("vertices", f"{ret['op']} moved the vertices", step)
        # chirality and similarity invariants against the base
        if base_chir and chirality(obj) != base_chir:
            bad("chirality", "the shape was mirrored (the determinant of a fixed vertex quadruple changed sign)", step,
                tags=["mirrored"])
        # (b) coherence with a freshly constructed object
        try:
            fresh = fresh_like(obj)
        except Exception as e:
            bad("fresh", f"the current vertices no longer construct a valid shape: {type(e).__name__}: {e}", step)
            return out
        pa, pb = project(obj), project(fresh)
        diff = compare(pa, pb, mlen)
        for name, why in diff[:6]:
            bad(name, f"stored/derived value differs from a freshly constructed shape: {why}", step, tags=["stale"])
        # (a) similarity laws against the base shape for rotation/translation invariant observables
        s = float(scale)
        for name, deg in (("volume", 3), ("surface_area", 2), ("area", 2), ("perimeter", 1)):
            if name in pa and name in base_proj and not isinstance(pa[name], tuple) and not isinstance(base_proj[name], tuple):
                if ret_changes_radius(job["hist"][:step + 1]):
                    continue
                e = float(base_proj[name]) * s ** deg
                if abs(float(pa[name]) - e) > 1e-9 * abs(e):
                    bad(name, f"{name} = {float(pa[name])!r}, expected base value x {scale}^{deg} = {e!r}", step, tags=["law"])
        for name in ("iq", "tau", "asphericity", "num_edges", "num_faces", "num_vertices"):
            if name in pa and name in base_proj and not isinstance(pa[name], tuple) and not isinstance(base_proj[name], tuple):
                if ret_changes_radius(job["hist"][:step + 1]) or (name in ("num_faces", "num_edges") and
                                                                  any(h2["ret"]["op"] == "merge_faces" and h2["ret"]["exc"] == "none" for h2 in job["hist"][:step + 1])):
                    continue
                if abs(float(pa[name]) - float(base_proj[name])) > 1e-9 * max(1.0, abs(float(base_proj[name]))):
                    bad(name, f"dimensionless {name} changed from {float(base_proj[name])!r} to {float(pa[name])!r}", step,
                        tags=["law"])
        if out:
            return out
    return out


def ret_changes_radius(hist):
    return any(h["ret"]["op"] in ("radius", "axis", "coreset") and h["ret"]["exc"] == "none" for h in hist)


# ---- the state graph ---------------------------------------------------------------------------------------------
def flags_for(cls, basename):
    """HasCircum / HasIn / FacesConvex of a base shape, decided with a wide margin from an independent least-squares."""
    import numpy as np
    if cls in CURVED:
        return {"HasCircum": True, "HasIn": True, "FacesConvex": True}
    obj = build(cls, bases(cls)[basename])
    core = getattr(obj, "_polyhedron", None) or getattr(obj, "_polygon", None) or obj
    v = np.asarray(core.vertices, dtype=float)
    size = float(np.max(np.linalg.norm(v - v.mean(axis=0), axis=1)))

    def circ():
        pts = v[1:] - v[0]
        if hasattr(core, "normal"):
            pts = np.vstack([pts, core.normal])
            rhs = np.concatenate([np.sum(pts[:-1] ** 2, axis=1) / 2, [0]])
        else:
            rhs = np.sum(pts ** 2, axis=1) / 2
        x = np.linalg.lstsq(pts, rhs, rcond=None)[0]
        return float(np.max(np.abs(pts @ x - rhs))) / size ** 2

    def insc():
        if hasattr(core, "normal"):
            e = np.roll(v, -1, axis=0) - v
            n = np.cross(e, core.normal)
            n /= np.linalg.norm(n, axis=1)[:, None]
            a = np.vstack([np.hstack([n, np.ones((len(v), 1))]), np.append(core.normal, 0)])
            b = np.concatenate([np.sum(n * v, axis=1), [np.dot(core.normal, v[0])]])
        else:
            n = np.asarray(core.normals, dtype=float)
            first = np.array([v[int(f[0])] for f in core.faces])
            a = np.hstack([n, np.ones((len(n), 1))])
            b = np.sum(n * first, axis=1)
        x = np.linalg.lstsq(a, b, rcond=None)[0]
        return float(np.max(np.abs(a @ x - b))) / size

    def decide(r):
        return True if r < 1e-10 else False if r > 1e-4 else None

    return {"HasCircum": decide(circ()), "HasIn": decide(insc()), "FacesConvex": True}


def explore(ctx, cls, flags, lambdas="LambdasQ", maxnum=3):
    consts = {"Cls": json.dumps(cls), "MaxNum": maxnum, "HasCircum": "TRUE" if flags["HasCircum"] else "FALSE",
              "HasIn": "TRUE" if flags["HasIn"] else "FALSE", "FacesConvex": "TRUE" if flags["FacesConvex"] else "FALSE",
              "EmitOn": "TRUE"}
    cfg = CFG + "CONSTANTS\n" + "\n".join(f" {k} = {v}" for k, v in consts.items()) + f"\n Lambdas <- {lambdas}\n"
    res = tlc.run("MC_ShapeMachine", cfg, workers=4, timeout=900)
    ctx.tlc(res, f"ShapeMachine state graph cls={cls} circum={flags['HasCircum']} in={flags['HasIn']}")
    if res.violated:
        ctx.violation({"cls": "spec", "obs": res.violated, "tags": ["T1", cls],
                       "msg": f"design-level counter-example: {res.violated} fails in ShapeMachine.tla"},
                      {"tlc_tail": res.stdout[-3000:]})
    edges = [r for r in res.records if r.get("k") == "edge"]
    return edges


def histories(edges, want, limit, seed):
    """One history per selected edge: shortest path from the initial state to the edge's source, then the edge."""
    key = lambda st: json.dumps(st, sort_keys=True)
    out_edges = {}
    for e in edges:
        out_edges.setdefault(key(e["pre"]), []).append(e)
    init = None
    for e in edges:
        st = e["pre"]
        if st["s"] == [1, 1] and st["cen"] == "base" and st["rot"] == 0 and st["fv"] == "given" and not st["ecache"] \
                and st["rr"] == [1, 1]:
            init = key(st)
            break
    parent = {init: None}
    dq = deque([init])
    while dq:
        u = dq.popleft()
        for e in out_edges.get(u, []):
            v = key(e["post"])
            if v not in parent and e["ret"]["exc"] == "none":
                parent[v] = (u, e)
                dq.append(v)

    def path_to(u):
        p = []
        while parent.get(u):
            u, e = parent[u]
            p.append(e)
        return p[::-1]

    sel = [e for e in edges if key(e["pre"]) in parent and want(e)]
    # de-duplicate identical (pre, ret)
    seen = set()
    uniq = []
    for e in sel:
        k = (key(e["pre"]), json.dumps(e["ret"], sort_keys=True))
        if k not in seen:
            seen.add(k)
            uniq.append(e)
    rnd = random.Random(seed)
    depth = {id(e): len(path_to(key(e["pre"]))) for e in uniq}
    shallow = [e for e in uniq if depth[id(e)] <= 1]
    deep = [e for e in uniq if depth[id(e)] > 1]
    rnd.shuffle(deep)
    chosen = shallow + deep[: max(0, limit - len(shallow))]
    return [path_to(key(e["pre"])) + [e] for e in chosen], len(uniq)


def random_walks(edges, n, length, seed):
    """Long random behaviours of the state graph (every step is a transition TLC generated), for replay."""
    key = lambda st: json.dumps(st, sort_keys=True)
    out_edges = {}
    for e in edges:
        out_edges.setdefault(key(e["pre"]), []).append(e)
    init = None
    for e in edges:
        st = e["pre"]
        if st["s"] == [1, 1] and st["cen"] == "base" and st["rot"] == 0 and st["fv"] == "given" and not st["ecache"] and st["rr"] == [1, 1]:
            init = key(st)
            break
    rnd = random.Random(seed)
    walks = []
    for _ in range(n):
        cur, walk = init, []
        for _ in range(length):
            outs = out_edges.get(cur, [])
            if not outs:
                break
            good = [e for e in outs if e["ret"]["exc"] == "none"]
            e = rnd.choice(good) if good and rnd.random() < 0.8 else rnd.choice(outs)
            walk.append(e)
            cur = key(e["post"])
        walks.append(walk)
    return walks
