"""Shared driver for the checks that replay Polygon2.tla states (C04 measures, C06 membership)."""
import hashlib
import json

from . import tlc
from .placement import palette
from .polygon_eval import eval_case
from .pool import pmap

CFG_T1 = """SPECIFICATION Spec
INVARIANT TypeOK
INVARIANT T1_SignedArea
INVARIANT T1_Centroid
INVARIANT T1_Planar
INVARIANT T1_Membership
CHECK_DEADLOCK FALSE
"""
CFG_EMIT = """SPECIFICATION Spec
VIEW ViewPoly
INVARIANT Emit
CHECK_DEADLOCK FALSE
"""


def h(x, seed):
    return int(hashlib.sha1((json.dumps(x) + str(seed)).encode()).hexdigest()[:8], 16)


def first_corner(v):
    return (v[1][0] - v[0][0]) * (v[2][1] - v[0][1]) - (v[1][1] - v[0][1]) * (v[2][0] - v[0][0])


def emit_polygons(ctx, G, maxv, relabel=True, simulate=None, depth=None, balls=False, radial=False, ff=False):
    res = tlc.run("Polygon2", CFG_EMIT,
                  constants={"G": G, "MaxV": maxv, "Relabel": "TRUE" if relabel else "FALSE", "EmitOn": "TRUE",
                             "WithBalls": "TRUE" if balls else "FALSE", "WithRadial": "TRUE" if radial else "FALSE",
                             "WithFF": "TRUE" if ff else "FALSE", "Seeds": "{}"},
                  timeout=1500, simulate=simulate, depth=depth)
    ctx.tlc(res, f"Polygon2 emission G={G} MaxV={maxv} relabel={relabel}" + (f" simulate={simulate}" if simulate else ""))
    seen = {}
    for r in res.records:
        k = json.dumps(r["v"])
        if k not in seen:
            seen[k] = r
    return list(seen.values())


def _named_cfg(cfg, seeds, G, relabel, emit, balls=False, radial=False, ff=False):
    b = lambda x: "TRUE" if x else "FALSE"
    return (cfg + f"CONSTANTS\n G = {G}\n MaxV = 0\n Relabel = {b(relabel)}\n EmitOn = {b(emit)}\n WithBalls = {b(balls)}\n"
            f" WithRadial = {b(radial)}\n WithFF = {b(ff)}\n Seeds <- {seeds}\n")


def t1_named(ctx, seeds="Named", G=8):
    """The named many-cornered polygons of spec/MC_Polygon2.tla (combs, saw, spiral, ...) with all 2n relabellings."""
    res = tlc.run("MC_Polygon2", _named_cfg(CFG_T1, seeds, G, True, False), timeout=1500)
    ctx.tlc(res, f"MC_Polygon2 T1 (layer A = layer D) seeds={seeds}, every relabelling")
    if res.violated:
        ctx.violation({"cls": "spec", "obs": res.violated, "tags": ["T1"],
                       "msg": f"design-level counter-example: invariant {res.violated} fails on a named polygon"},
                      {"tlc_tail": res.stdout[-3000:]})
    return res


CFG_TRI = """SPECIFICATION Spec
INVARIANT T1_Triangulate
CHECK_DEADLOCK FALSE
"""
CFG_TRI_CANARY = """SPECIFICATION Spec
INVARIANT Canary_WrongTriangulate
CHECK_DEADLOCK FALSE
"""


def t1_triangulate(ctx, G, maxv, seeds="Named"):
    """polytri's ear clipping as transcribed (AlgPolygon.tla) succeeds and tiles, for every relabelling: on the named polygons
    and on the exhaustive family; the wrong variant ('continue from the current corner') must be refuted (non-vacuity)."""
    from .common import MachineryError
    consts = {"G": G, "MaxV": maxv, "Relabel": "TRUE", "EmitOn": "FALSE", "WithBalls": "FALSE", "WithRadial": "FALSE",
              "WithFF": "FALSE", "Seeds": "{}"}
    runs = [("MC_Polygon2", _named_cfg(CFG_TRI, seeds, 8, True, False), None, f"named polygons ({seeds})"),
            ("Polygon2", CFG_TRI, consts, f"every simple lattice polygon G={G} MaxV={maxv}")]
    for mod, cfg, c, label in runs:
        res = tlc.run(mod, cfg, constants=c, timeout=1500)
        ctx.tlc(res, f"T1_Triangulate (ear clipping as coded terminates and tiles, every relabelling): {label}")
        if res.violated:
            ctx.violation({"cls": "spec", "obs": res.violated, "tags": ["T1"],
                           "msg": f"design-level counter-example: {res.violated} fails ({label})"}, {"tlc_tail": res.stdout[-3000:]})
    res = tlc.run("MC_Polygon2", _named_cfg(CFG_TRI_CANARY, "Named", 8, True, False), timeout=1500)
    ctx.tlc(res, "canary: the wrong loop variant (no rescan after a clip) must be refuted on the named polygons")
    if res.violated != "Canary_WrongTriangulate":
        raise MachineryError("T1_Triangulate is vacuous: the wrong variant of the ear-clipping loop was not refuted")


def emit_named(ctx, seeds="Named", G=8, relabel=True, balls=False, radial=False, ff=False):
    res = tlc.run("MC_Polygon2", _named_cfg(CFG_EMIT, seeds, G, relabel, True, balls, radial, ff), timeout=1500)
    ctx.tlc(res, f"MC_Polygon2 emission seeds={seeds} relabel={relabel}")
    seen = {}
    for r in res.records:
        seen.setdefault(json.dumps(r["v"]), r)
    return list(seen.values())


def t1(ctx, G, maxv):
    res = tlc.run("Polygon2", CFG_T1,
                  constants={"G": G, "MaxV": maxv, "Relabel": "FALSE", "EmitOn": "FALSE", "WithBalls": "FALSE", "WithRadial": "FALSE", "WithFF": "FALSE", "Seeds": "{}"}, timeout=1500)
    ctx.tlc(res, f"Polygon2 T1 (layer A = layer D) G={G} MaxV={maxv}")
    if res.violated:
        ctx.violation({"cls": "spec", "obs": res.violated, "tags": ["T1"],
                       "msg": f"design-level counter-example: invariant {res.violated} fails in Polygon2.tla"},
                      {"tlc_tail": res.stdout[-3000:]})
    return res


def build_cases(recs, which, tier, seed, per_poly_placements):
    cases = []
    for r in recs:
        v = r["v"]
        size = 3
        pal = palette(size, tier)
        chosen = [pal[0]]
        others = pal[1:]
        start = h(v, seed)
        for j in range(min(per_poly_placements, len(others))):
            chosen.append(others[(start + j) % len(others)])
        fc = first_corner(v)
        for ip, pl in enumerate(chosen):
            variants = [(1, "explicit"), (-1, "explicit")]
            if fc != 0:
                variants.append((1 if fc > 0 else -1, "default"))
            if tier == "quick" and ip > 0:
                variants = [variants[(start + ip) % len(variants)]]
            for nz, variant in variants:
                cases.append({"rec": r, "pl": pl.to_json(), "nz": nz, "variant": variant, "cls": "Polygon",
                              "which": which, "single_step": 5 if tier == "quick" else 1,
                              "nlen": [3.0, 1.0, 1.000003, 0.999995][(start + ip + nz) % 4]})
                if r["convex"] and pl is chosen[0] or (r["convex"] and variant == "explicit" and nz == 1):
                    cases.append({"rec": r, "pl": pl.to_json(), "nz": nz, "variant": variant,
                                  "cls": "ConvexPolygon", "which": which, "single_step": 7})
    return cases


def replay(ctx, cases):
    results = pmap(eval_case, cases)
    for case, (mism, stats) in zip(cases, results):
        key = (json.dumps(case["rec"]["v"]), case["nz"], case["variant"], case["cls"], json.dumps(case["pl"]))
        trivial = len(case["rec"]["v"]) == 3 and case["pl"]["q"] == [1, 0, 0, 0] and case["pl"]["s"] == [1, 1] \
            and not any(t[0] for t in case["pl"]["t"])
        ctx.case(key, nontrivial=not trivial,
                 sample={"vertices": case["rec"]["v"], "normal_sign": case["nz"], "normal": case["variant"],
                         "class": case["cls"], "placement": case["pl"],
                         "expected": {"area2": case["rec"]["area2"], "cnum": case["rec"]["cnum"],
                                      "m24": case["rec"]["m24"]}})
        ctx.traces += 1
        ctx.unclear += stats.get("unclear", 0)
        for k, w in stats.get("maxrel", {}).items():
            ctx.maxrel[k] = max(ctx.maxrel.get(k, 0.0), w)
        for sig, detail in mism:
            ctx.violation(sig, detail)


def replay_record(rec):
    """--replay: re-evaluate the stored case against the current tree."""
    from .pool import _init
    _init()
    case = rec["detail"]["case"]
    mism, _ = eval_case(case)
    return [f"{s['cls']}.{s['obs']}: {s['msg']}" for s, _ in mism if s["obs"] == rec["signature"]["obs"]] or \
           [f"{s['cls']}.{s['obs']}: {s['msg']}" for s, _ in mism]
