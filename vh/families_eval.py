"""C17: truncation families against exact half-space intersections (spec/Families.tla) and the analytically generated
uniform families against spec/UniformFamilies.tla."""
import json
import math
import warnings
from fractions import Fraction as F

from . import tlc

warnings.filterwarnings("ignore")
CFG_F = "SPECIFICATION Spec\nINVARIANT T1_Corners\nINVARIANT T1_CommonLattice\nINVARIANT Emit\nCHECK_DEADLOCK FALSE\n"
CFG_U = "SPECIFICATION Spec\nINVARIANT T1_Euler\nINVARIANT T1_DegreeSum\nINVARIANT Emit\nCHECK_DEADLOCK FALSE\n"


def emit_family(ctx, fam, dn, anums, cnums):
    cfg = CFG_F + f'CONSTANTS\n Fam = "{fam}"\n Dn = {dn}\n ANums = {{{", ".join(map(str, anums))}}}\n CNums = {{{", ".join(map(str, cnums))}}}\n'
    res = tlc.run("Families", cfg, timeout=1500)
    ctx.tlc(res, f"Families {fam} grid Dn={dn} ({len(anums)}x{len(cnums)})")
    if res.violated:
        ctx.violation({"cls": "spec", "obs": res.violated, "tags": ["T1", fam], "msg": "corner solid mismatch in Families.tla"},
                      {"tlc": res.stdout[-2000:]})
    return [r for r in res.records if r.get("k") == "family"]


def emit_uniform(ctx, maxn):
    res = tlc.run("UniformFamilies", CFG_U, constants={"MaxN": maxn}, workers=4, timeout=600)
    ctx.tlc(res, f"UniformFamilies n <= {maxn}")
    if res.violated:
        ctx.violation({"cls": "spec", "obs": res.violated, "tags": ["T1"], "msg": "UniformFamilies.tla inconsistency"}, {"tlc": res.stdout[-2000:]})
    return [r for r in res.records if r.get("k") in ("uniform", "corner523")]


def match_sets(exact, got, tol):
    """Every exact vertex matched by exactly one returned vertex and vice versa."""
    import numpy as np
    if len(exact) != len(got):
        return False
    used = set()
    for e in exact:
        d = np.linalg.norm(got - e, axis=1)
        k = int(np.argmin(d))
        if d[k] > tol or k in used:
            return False
        used.add(k)
    return True


def eval_family(rec):
    import numpy as np
    import coxeter
    fam = rec["fam"]
    a = F(rec["a"][0], rec["a"][1])
    c = F(rec["c"][0], rec["c"][1])
    out = []
    tags = [fam, "indomain" if rec["indomain"] else "outside", "corner" if rec["corner"] else "interior"]
    Fam = coxeter.families.Family323Plus if fam == "323" else coxeter.families.Family423
    entries = [(Fam.__name__, lambda: Fam.get_shape(float(a), float(c)))]
    if fam == "323" and a == 1 and 1 <= c <= 3:
        t = (3 - c) / 2
        entries.append(("TruncatedTetrahedronFamily", lambda: coxeter.families.TruncatedTetrahedronFamily.get_shape(float(t))))
    exact = np.array([[v[0] / v[3], v[1] / v[3], v[2] / v[3]] for v in rec["verts"]], dtype=float) if rec["verts"] else np.zeros((0, 3))
    sep = math.sqrt(rec["minsep2"][0]) / rec["minsep2"][1] if rec["verts"] else 1.0
    for name, call in entries:
        def bad(obs, msg, extra=()):
            out.append(({"cls": name, "obs": obs, "tags": tags + list(extra), "msg": msg}, {"case": rec}))
        try:
            shape = call()
            exc = None
        except Exception as e:
            shape, exc = None, e
        if not rec["indomain"]:
            if not isinstance(exc, ValueError):
                bad("get_shape", f"parameters a={a}, c={c} outside the documented domain: expected ValueError, got "
                    f"{type(exc).__name__ if exc else 'a shape'}", ["outside_accepted" if exc is None else "wrong_exception"])
            continue
        if exc is not None:
            if not isinstance(exc, ValueError):
                bad("get_shape", f"a={a}, c={c}: raised {type(exc).__name__}: {exc}", ["wrong_exception"])
            elif sep >= 1e-4:
                bad("get_shape", f"a={a}, c={c}: ValueError although the exact vertices are separated by {sep:.3g}", ["valid_rejected"])
            continue
        if type(shape).__name__ != "ConvexPolyhedron":
            bad("get_shape", f"returned a {type(shape).__name__}")
            continue
        got = np.asarray(shape.vertices, dtype=float)
        if not match_sets(exact, got, 1e-9 * 4):
            bad("get_shape", f"a={a}, c={c}: returned {len(got)} vertices that are not the {len(exact)} exact vertices of the "
                "half-space intersection", ["different_shape", "nv_exact=%d" % len(exact), "nv_got=%d" % len(got)])
    return out, {}


def regular_face(v, tol):
    import numpy as np
    n = len(v)
    e = np.linalg.norm(np.roll(v, -1, axis=0) - v, axis=1)
    ang = []
    for i in range(n):
        a, b, c = v[i - 1], v[i], v[(i + 1) % n]
        u, w = a - b, c - b
        ang.append(math.acos(max(-1, min(1, float(np.dot(u, w) / np.linalg.norm(u) / np.linalg.norm(w))))))
    return (e.max() - e.min()) <= tol * e.max() and (max(ang) - min(ang)) <= tol * 10


def eval_corner523(rec):
    import numpy as np
    import coxeter
    from scipy.constants import golden_ratio as S
    s_ = 1 / S
    a, c = [(1.0, S ** 2), (s_ * math.sqrt(5), S ** 2), (1.0, 3.0), (s_ * math.sqrt(5), 3.0)][rec["n"] - 1]
    out = []
    try:
        sh = coxeter.families.Family523.get_shape(a, c)
        got = (sh.num_vertices, sh.num_edges, sh.num_faces)
        if list(got) != list(rec["counts"]):
            out.append(({"cls": "Family523", "obs": "get_shape", "tags": ["corner%d" % rec["n"]],
                         "msg": f"corner {rec['n']} (a={a!r}, c={c!r}) has (V,E,F) = {got}, documented solid has {rec['counts']}"}, {"case": rec}))
        el = np.asarray(sh.edge_lengths)
        if rec["n"] in (1, 2, 3) and el.max() - el.min() > 1e-6 * el.max():
            out.append(({"cls": "Family523", "obs": "get_shape", "tags": ["corner%d" % rec["n"], "edges"],
                         "msg": "edges of the corner solid are not all equal"}, {"case": rec}))
    except Exception as e:
        out.append(({"cls": "Family523", "obs": "get_shape", "tags": ["corner%d" % rec["n"], "raised"],
                     "msg": f"corner {rec['n']} raised {type(e).__name__}: {e}"}, {"case": rec}))
    return out, {}


def eval_uniform(rec):
    import numpy as np
    import coxeter
    if rec.get("k") == "corner523":
        return eval_corner523(rec)
    fam, n = rec["fam"], rec["n"]
    Fam = {"ngon": coxeter.families.RegularNGonFamily, "prism": coxeter.families.UniformPrismFamily,
           "antiprism": coxeter.families.UniformAntiprismFamily, "pyramid": coxeter.families.UniformPyramidFamily,
           "dipyramid": coxeter.families.UniformDipyramidFamily}[fam]
    out = []

    def bad(obs, msg, extra=()):
        out.append(({"cls": Fam.__name__, "obs": obs, "tags": ["n%d" % n] + list(extra), "msg": msg}, {"case": rec}))
    try:
        shape = Fam.get_shape(n)
        exc = None
    except Exception as e:
        shape, exc = None, e
    if not rec["admissible"]:
        if fam in ("pyramid", "dipyramid") and n > 5:
            return out, {"unclear": 1}           # not equilateral any more: the property only speaks about admissible n
        if exc is None:          # the property only speaks about admissible n: an inadmissible n must not yield a shape
            bad("get_shape", f"n = {n} is not admissible but a shape was returned")
        return out, {}
    if exc is not None:
        bad("get_shape", f"n = {n}: raised {type(exc).__name__}: {exc}", ["raised"])
        return out, {}
    V = np.asarray(shape.vertices, dtype=float)
    nv, ne, nf = rec["counts"]
    if fam == "ngon":
        if type(shape).__name__ != "ConvexPolygon" or len(V) != nv:
            bad("get_shape", f"expected a ConvexPolygon with {nv} vertices")
            return out, {}
        if abs(shape.area - 1) > 1e-9:
            bad("area", f"area {shape.area!r} is not 1")
        if not (abs(V[0][1]) <= 1e-12 and V[0][0] > 0 and np.all(np.abs(V[:, 2]) <= 1e-12)):
            bad("vertices", "the first vertex is not on the +x axis")
        r = np.linalg.norm(V, axis=1)
        if r.max() - r.min() > 1e-9 * r.max() or not regular_face(V, 1e-9):
            bad("vertices", "not a regular polygon centred at the origin")
        ang = np.arctan2(V[:, 1], V[:, 0])
        if not np.allclose(np.mod(ang, 2 * np.pi), np.mod(2 * np.pi * np.arange(n) / n, 2 * np.pi), atol=1e-9):
            bad("vertices", "vertices are not at angles 2 pi k / n in counter-clockwise order")
        return out, {}
    if type(shape).__name__ != "ConvexPolyhedron":
        bad("get_shape", f"returned {type(shape).__name__}")
        return out, {}
    if (shape.num_vertices, shape.num_edges, shape.num_faces) != (nv, ne, nf):
        bad("counts", f"(V, E, F) = {(shape.num_vertices, shape.num_edges, shape.num_faces)}, expected {(nv, ne, nf)}", ["counts"])
    degs = {}
    for f in shape.faces:
        degs[len(f)] = degs.get(len(f), 0) + 1
    if sorted(degs.items()) != sorted((d[0], d[1]) for d in rec["degrees"]):
        bad("faces", f"face degrees {sorted(degs.items())}, expected {sorted(map(tuple, rec['degrees']))}", ["degrees"])
    if abs(shape.volume - 1) > 1e-9:
        bad("volume", f"volume {shape.volume!r} is not 1")
    if np.max(np.abs(shape.centroid)) > 1e-9:
        bad("centroid", f"centroid {np.asarray(shape.centroid).tolist()} is not the origin")
    el = np.asarray(shape.edge_lengths, dtype=float)
    if el.max() - el.min() > 1e-9 * el.max():
        bad("edge_lengths", f"edges are not all equal ({el.min()!r}..{el.max()!r})", ["edges"])
    for f in shape.faces:
        if not regular_face(V[np.asarray(f)], 1e-8):
            bad("faces", "a face is not a regular polygon", ["regular_faces"])
            break
    return out, {}


# ---- Family523 over Q(sqrt 5) (spec/Family523.tla) ------------------------------------------------------------------
CFG_523 = ("SPECIFICATION Spec\nINVARIANT T1_Icosahedral\nINVARIANT T1_Corners523_Emit\nCHECK_DEADLOCK FALSE\nCONSTANTS\n"
           " Dn = %d\n PA1 = %d\n PA2 = %d\n PC1 = %d\n PC2 = %d\n Params <- OnePoint\n")
# (Dn, a = <<p, q>>, c = <<p, q>>): corners, edge midpoints and centre, rational interior points, points outside
POINTS_523 = {
    "corners": [(2, a, c) for a in ((2, 0), (5, -1)) for c in ((3, 1), (6, 0))],
    "edges": [(4, a, c) for a in ((4, 0), (7, -1), (10, -2)) for c in ((6, 2), (9, 1), (12, 0)) if not (a in ((4, 0), (10, -2)) and c in ((6, 2), (12, 0)))],
    "grid": [(8, (a, 0), (c, 0)) for a in (8, 9, 10, 11) for c in (21, 22, 23, 24)],
    "outside": [(8, (7, 0), (22, 0)), (8, (12, 0), (22, 0)), (8, (9, 0), (20, 0)), (8, (9, 0), (25, 0)), (4, (11, -2), (9, 1)), (4, (7, -1), (5, 2))],
}


def emit_523(ctx, points):
    """One TLC process per parameter point, eight at a time."""
    from concurrent.futures import ThreadPoolExecutor

    def one(pt):
        dn, a, c = pt
        return tlc.run("MC_Family523", CFG_523 % (dn, a[0], a[1] + 10, c[0], c[1] + 10), workers=1, timeout=900)
    with ThreadPoolExecutor(max_workers=8) as ex:
        results = list(ex.map(one, points))
    recs = []
    for pt, res in zip(points, results):
        ctx.tlc(res, f"Family523 over Q(sqrt5): Dn={pt[0]} a={pt[1]} c={pt[2]} (T1_Icosahedral, T1_Corners523)")
        if res.violated:
            ctx.violation({"cls": "spec", "obs": res.violated, "tags": ["T1", "523"], "msg": "Family523.tla: " + res.violated},
                          {"tlc": res.stdout[-2000:]})
        recs += [r for r in res.records if r.get("k") == "family523"]
    return recs


def _q5(x, dn):
    return (x[0] + x[1] * math.sqrt(5.0)) / dn


def eval_family523(rec):
    import numpy as np
    import coxeter
    from decimal import Decimal, getcontext
    from fractions import Fraction
    getcontext().prec = 60
    r5 = Decimal(5).sqrt()
    dn = rec["a"][1]
    a = _q5(rec["a"][0], dn)
    c = _q5(rec["c"][0], rec["c"][1])
    out = []
    tags = ["523", "indomain" if rec["indomain"] else "outside", "corner" if rec["corner"] else "interior",
            "irrational" if rec["a"][0][1] or rec["c"][0][1] else "rational"]

    def bad(obs, msg, extra=()):
        out.append(({"cls": "Family523", "obs": obs, "tags": tags + list(extra), "msg": msg}, {"case": rec}))

    def dec(x):
        f = Fraction(x)
        return Decimal(f.numerator) / Decimal(f.denominator)
    # the doubles handed to get_shape may lie outside the (irrational) domain by a rounding error although the exact parameter is on it
    lo_a, hi_a, lo_c, hi_c = Decimal(1), (Decimal(5) - r5) / 2, (Decimal(3) + r5) / 2, Decimal(3)
    double_inside = lo_a <= dec(a) <= hi_a and lo_c <= dec(c) <= hi_c
    try:
        shape = coxeter.families.Family523.get_shape(a, c)
        exc = None
    except Exception as e:
        shape, exc = None, e
    if not rec["indomain"]:
        if not isinstance(exc, ValueError):
            bad("get_shape", f"a={a!r}, c={c!r} outside the documented domain: expected ValueError, got "
                f"{type(exc).__name__ if exc else 'a shape'}", ["outside_accepted" if exc is None else "wrong_exception"])
        return out, {}
    if exc is not None:
        if isinstance(exc, ValueError) and not double_inside:
            return out, {"unclear": 1}
        bad("get_shape", f"a={a!r}, c={c!r} in the domain: raised {type(exc).__name__}: {exc}", ["valid_rejected"])
        return out, {}
    exact = np.array([[_q5(v[0], v[3]), _q5(v[1], v[3]), _q5(v[2], v[3])] for v in rec["verts"]], dtype=float)
    got = np.asarray(shape.vertices, dtype=float)
    if type(shape).__name__ != "ConvexPolyhedron" or not match_sets(exact, got, 1e-9 * 4):
        bad("get_shape", f"a={a!r}, c={c!r}: returned {len(got)} vertices that are not the {len(exact)} exact vertices of the "
            "half-space intersection over Q(sqrt5)", ["different_shape", "nv_exact=%d" % len(exact), "nv_got=%d" % len(got)])
    return out, {}
