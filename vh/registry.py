"""Single source for MANIFEST.json (tools/gen_manifest.py). One entry per property."""

# property id -> dict(claimed, text, note, technique, design_ref) ; unclaimed -> reason
REG = {}


def claim(pid, text, note, technique, design_ref):
    REG[pid] = dict(claimed=True, text=text, note=note, technique=technique, design_ref=design_ref)


def unclaimed(pid, reason):
    REG[pid] = dict(claimed=False, reason=reason)


for _i in range(1, 21):
    unclaimed(f"C{_i:02d}", "check not built yet in this round; will be decided with the TLA+ specification (see DESIGN.md section 5)")


claim("C04",
      text="TLC exhaustively enumerates the simple lattice polygons of spec/Polygon2.tla (ear-growth machine, all reversals "
           "and start vertices), proves inside the specification that the shoelace/centroid/second-moment formulas as coded "
           "(spec/AlgPolygon.tla) equal the integrals over the growth triangulation (spec/Geom2.tla), and emits the exact "
           "values; every emitted state is replayed into coxeter.shapes.Polygon/ConvexPolygon under rational similarity "
           "placements and compared at 1e-9 relative. Bounded model checking + conformance replay is the right level: the "
           "property is a universally quantified numeric identity whose case analysis (orientation, normal choice, reflex "
           "first corner, embedding) is finite and small.",
      note="Trusted: TLC, vh/terms.py, vh/placement.py (covariance laws applied in Fraction arithmetic), tolerance table "
           "(DESIGN 4.3). Not decided: generic non-lattice polygons; planar moments for polygons outside the xy-plane "
           "(the statement restricts them to the xy-plane with +z normal).",
      technique="TLA+ model checking (TLC) of an exact-arithmetic polygon state machine + spec-to-code replay",
      design_ref="DESIGN.md 5 C04")


claim("C01",
      text="TLC enumerates all full-dimensional 4..k-point subsets of lattice universes in strictly convex position "
           "(spec/Convex3.tla, exhaustive for a 12-point universe, random growth on 30/48-point shells), computes facets "
           "by supporting planes and exact volume, centroid, second moments, facet areas and facet centroids "
           "(spec/Geom3.tla), proves in the spec that the coded curl-theorem centroid and 4-point quadrature "
           "(spec/AlgConvex.tla) equal them, and every emitted state is replayed into ConvexPolyhedron under rational "
           "placements and vertex permutations at 1e-9 relative.",
      note="Trusted: TLC, vh/placement.py laws, tolerance table. Not decided: generic float point clouds; tabulated "
           "solids (irrational coordinates) only through C09/C18 relations.",
      technique="TLA+ model checking (TLC) of an exact lattice-polytope state machine + spec-to-code replay",
      design_ref="DESIGN.md 5 C01")

claim("C07",
      text="Facets, counter-clockwise outward cycles, primitive outward normals, ridge adjacency and edge sets are defined in "
           "spec/Geom3.tla and model-checked (Euler, each edge in two facets) on every state of spec/Convex3.tla; (T2) the "
           "emitted structure is compared with ConvexPolyhedron's faces/equations/neighbors/edges/simplices; (T3) discrete "
           "projections recorded from ConvexPolyhedron and from Polyhedron.sort_faces/merge_faces on scrambled, reversed and "
           "triangulated inputs (with and without a prior read of the memoised edge list) are validated by TLC against "
           "spec/TraceStructure.tla, which also must reject four corrupted canary traces on every run.",
      note="Trusted: TLC, the recorder in vh/structure_trace.py (logs integers only). Implementation latitude (face order, "
           "cycle start, choice of triangulation) is nondeterminism in the trace spec.",
      technique="TLA+ trace validation (recorded executions checked by TLC against a trace specification) + spec-to-code replay",
      design_ref="DESIGN.md 5 C07")


claim("C06",
      text="For polygons: every state of spec/Polygon2.tla x every half-lattice point of the enlarged bounding box; TLC decides "
           "membership by crossing parity in integers, proves that it equals membership through the growth triangulation and "
           "that the coded L/R half-plane winding number (spec/AlgPolygon.tla) decides the same, and the classification is "
           "replayed into Polygon/ConvexPolygon.is_inside (batch (N,3), single (3,), (N,2)) under rational placements. For "
           "Circle/Ellipse: the membership quadratic form is emitted as an exact term by spec/Curved.tla for every parameter "
           "state (a<b, a=b, a>b, near-ties, centres in all sign patterns, scales 1e-3..1e3) and evaluated on a grid covering "
           "all four quadrants relative to the centre.",
      note="Points on the boundary (exactly, or within 1e-6 of the quadratic form's level 1) are UNCLEAR and never asserted. "
           "Known finding ellipse-quadrant-box is modelled as the named deviation Dev_EllipseQuadrantBox in Curved.tla.",
      technique="TLA+ model checking (TLC) of an exact polygon/point state space + spec-to-code replay",
      design_ref="DESIGN.md 5 C06")

claim("C10",
      text="spec/Curved.tla is a parameter state machine (class, semi-axes incl. ties and near-ties 1+10^-e in every order, "
           "centre, scale 10^k) whose observables are exact symbolic terms in Q[pi]: closed forms for area, volume, circle "
           "perimeter, sphere area, eccentricity, planar/polar moments about the x and y axes, inertia tensor about the "
           "origin; a Gauss-Kummer series enclosure with explicit tail for the ellipse perimeter; spheroid closed forms and "
           "a rigorous enclosure for the ellipsoid surface area. TLC enumerates all states; each is replayed into "
           "Circle/Ellipse/Sphere/Ellipsoid, plus permutation-invariance and homogeneity relations on the implementation.",
      note="Terms are evaluated by vh/terms.py with pi and square roots as 50-digit rationals. Not decided: an error in the "
           "ellipse perimeter / triaxial ellipsoid area that stays inside the enclosure and respects the relations. Known "
           "findings planar-parallel-axis-swapped-* are modelled as Dev_PlanarParallelAxisSwapped.",
      technique="TLA+ parameter state machine emitting exact symbolic terms (TLC) + spec-to-code replay",
      design_ref="DESIGN.md 5 C10")


claim("C02",
      text="TLC enumerates every manifold face-connected voxel solid up to MaxCells cells in a box (spec/Voxel3.tla: L, U, C, S "
           "shapes; genus-1 frames by random growth), defines volume/area/centroid/second moments by counting unit cubes, and "
           "proves in the spec that the coded area*offset volume, the Eberly centroid and the signed Kallay inertia over the "
           "ear-clipped surface triangulation equal them; each boundary mesh is replayed into Polyhedron under rational "
           "placements (scales 1e-3..1e3) and cyclic shifts of the face cycles.",
      note="Trusted: TLC, vh/placement.py laws, tolerance table. Not decided: meshes with non-convex faces, generic float "
           "meshes; extrusions and perturbed hulls are covered through C01/C09 states rather than separate generators.",
      technique="TLA+ model checking (TLC) of a voxel-solid growth machine + spec-to-code replay",
      design_ref="DESIGN.md 5 C02")

claim("C05",
      text="Membership is defined exactly in the specification - cell occupancy for voxel solids (with the T1 theorem that the "
           "coded 3-D winding number with lexicographic tie-breaking decides the same on every half-lattice point incl. all "
           "degenerate alignments), facet half-spaces for convex lattice polytopes, the quadratic-form term for spheres and "
           "ellipsoids - and every (shape, point) classification emitted by TLC is replayed into Polyhedron, ConvexPolyhedron, "
           "a Polyhedron copy of the convex solid, ConvexSpheropolyhedron (radius 0) and Sphere/Ellipsoid as batch and "
           "single-point calls under rational placements.",
      note="Boundary points are UNCLEAR and never asserted. Spheropolyhedra with positive radius: see evidence notes.",
      technique="TLA+ model checking (TLC) of exact shape x point state spaces + spec-to-code replay",
      design_ref="DESIGN.md 5 C05")


claim("C03",
      text="spec/ShapeMachine.tla models the shape object as a state machine (abstract similarity factor, centroid mode, "
           "rotation flag, chirality, rounding radius, face-structure version, memoised-edge flag, and a stamp algebra of "
           "stored fields that each operation dirties/refreshes) with one action per public mutating call; TLC explores the "
           "complete state graph per class/base and checks Coherent, NoMirror, FailAtomic, SetterSimilar, BadTargetRefused, "
           "QueryPure; every transition becomes one implementation history (shortest path + transition) executed on the "
           "real object, whose full public projection (by reflection, incl. cached properties) is compared after each step "
           "with a freshly constructed shape and with the spec's predictions (exception class, exact similarity, chirality).",
      note="The coherence oracle is the implementation's own constructor on the current vertices (which C01/C02/C04 bind to "
           "exact values). The graph is finite through bounded scale numerators; longer histories rely on the abstraction. "
           "miniball-based members are compared under a fixed seed.",
      technique="TLA+ state-machine model checking (TLC) + one implementation test per transition of the state graph",
      design_ref="DESIGN.md 5 C03, 3.4")

claim("C08",
      text="The setter actions of spec/ShapeMachine.tla (every size-like member of all ten classes with its homogeneity degree, "
           "unsupported members, members needing a circum-/in-ball, bad targets 0 / negative / nan, centroid and center, "
           "rounding radius, single semi-axes) are explored exhaustively by TLC with SetterSimilar, BadTargetRefused and "
           "FailAtomic as action properties; each transition is executed on the real object: read-back equals the target, "
           "all defining coordinates scale by exactly lambda, dimensionless descriptors are unchanged, refused calls raise "
           "the predicted exception and leave the stored state bit-identical.",
      note="Targets outside the lambda alphabet (1e-1..1e1 in the thorough tier) are not tried; settable members found by "
           "reflection are listed in the evidence.",
      technique="TLA+ state-machine model checking (TLC) + one implementation test per transition of the state graph",
      design_ref="DESIGN.md 5 C08")


claim("C15",
      text="spec/Ctor2.tla grows every vertex sequence (duplicates allowed) of length 3..5 over a lattice and classifies it in exact "
           "integer arithmetic as clearly valid / clearly invalid / within the margin for Polygon (simple cycle, via Geom2) and "
           "for the convex classes (every point a strict hull vertex, with the expected counter-clockwise stored order); TLC "
           "checks the classifier's internal consistency and emits every input; each is handed to Polygon, ConvexPolygon and "
           "ConvexSpheropolygon as (N,2)/(N,3) arrays with default/explicit normals under rational placements, with off-plane "
           "variants; Convex3 states with an exact interior or duplicate point go to ConvexPolyhedron/ConvexSpheropolyhedron; "
           "curved shapes and rounding radii by parameter sign; every construction checks that the caller's arrays are neither "
           "modified nor stored (CtorNoAlias of spec/HeapModel.tla is checked in C16).",
      note="Unclear inputs (touching, straight angles, collinear overlap) are counted, never asserted. Bentley-Ottmann is bound as a "
           "black box to Geom2.Simple.",
      technique="TLA+ model checking (TLC) of an exact input classifier + spec-to-code replay",
      design_ref="DESIGN.md 5 C15")

claim("C16",
      text="spec/HeapModel.tla models arrays as heap objects with identity (in-place vs re-binding statements of each call body, "
           "references handed out to the caller, arrays owned by the caller) and TLC checks CtorNoAlias, OwnedIntact, "
           "HandedIntact, QueryKeepsObjects and HoomdCentred up to a bounded number of calls, with a canary instance (the pinned "
           "snapshot's bodies) that must violate them; the predicted alias facts of every call are observed on real objects of "
           "eight classes; and every public property/query/exporter of all ten classes (by reflection) is executed alone and in "
           "ordered pairs while the harness holds every handed-out array, checking bit-identity of handed-out and argument "
           "arrays, history-independence and repeatability of answers, and the unchanged public projection.",
      note="Plotting members excluded. Live arrays may differ by last-digit rounding after move-and-move-back operations, as the "
           "property allows. The quick tier runs all single queries and a seeded sample of ordered pairs; thorough runs all pairs.",
      technique="TLA+ heap/alias model checked by TLC + conformance of predicted alias facts + exhaustive reflective query pairs",
      design_ref="DESIGN.md 5 C16, Appendix B")


claim("C19",
      text="spec/Gsd.tla states the from_gsd_type_shapes dispatch as a decision table (type string incl. missing / unknown / wrong "
           "capitalisation x dimensions x rounding radius x convex or non-convex cycle -> class or ValueError) and, per class, "
           "the round-trip actions (exported GSD type and keys, class that must come back, what GSD documentedly loses, the "
           "documented to_hoomd keys) with the T1 theorem that every exported spec is accepted and yields the exporting class; "
           "TLC enumerates it exhaustively and every row/action is executed on off-origin bases of all ten classes incl. both "
           "polygon orientations and opposing explicit normals: GSD round trip, eval(repr), to_json subsets and unknown attribute, "
           "to_hoomd compared key by key with an independently centred copy (HoomdCentred of HeapModel.tla is checked in C16).",
      note="Known finding spheropolygon-hoomd-not-centred (the repository's own test asserts the un-centred vertices).",
      technique="TLA+ decision table / round-trip machine enumerated by TLC + spec-to-code replay",
      design_ref="DESIGN.md 5 C19")


claim("C20",
      text="spec/MeshFormats.tla contains reader machines for OBJ, OFF, PLY, legacy VTK, ASCII STL, X3D and HTML written from the "
           "format definitions; files written by coxeter.io.to_* and Polyhedron.save for ConvexPolyhedron/Polyhedron shapes "
           "(mixed face degrees, non-convex voxel solids, scales 1e-6..1e6, both signs) are tokenised without format knowledge "
           "(each float token replaced by the id of the bit-identical coordinate) and TLC validates every file trace: the "
           "reconstructed vertex table must equal the shape's to full double precision, face cycles must be the shape's with the "
           "same orientation (STL: outward triangles tiling each face, checked in integers on the lattice image), declared "
           "counts must match; corrupted canary traces must be rejected on every run; save() with unknown types and 'exporting "
           "does not change the shape' are checked by the harness.",
      note="Trust assumption: the readers encode the formats as known to the author (no independent parser library installed). "
           "Known finding off-face-count-prefix is modelled as Dev_OffFaceCountPrefix so that the rest of each OFF file is still read.",
      technique="TLA+ trace validation: file token traces checked by TLC against format reader machines",
      design_ref="DESIGN.md 5 C20")


claim("C11",
      text="For every convex lattice polytope of spec/Convex3.tla TLC emits the integrated mean curvature as an exact symbolic "
           "term (sum over the hull edges of sqrt(|e|^2) * acos(n1.n2/(|n1||n2|)) / (8 pi) from the primitive integer facet "
           "normals) and the Steiner polynomials, tau, asphericity and iq as terms over V, S, M and r; convex polygons of "
           "spec/Polygon2.tla give A + P r + pi r^2 and P + 2 pi r; each is replayed into ConvexPolyhedron (mean_curvature, "
           "tau, asphericity, iq, get_dihedral), ConvexSpheropolyhedron (volume, surface_area, mean_curvature) and "
           "ConvexSpheropolygon (area, signed_area, perimeter; both normals) for radii 0 and 1e-3..1e2 core sizes under "
           "rational placements incl. scales 1e-6..1e3.",
      note="Irrational terms are evaluated by vh/terms.py in double precision. Closed-form cross-check: axis-aligned boxes give "
           "acos(0) terms, i.e. M = (a+b+c)/4.",
      technique="TLA+ model checking (TLC) emitting exact symbolic terms + spec-to-code replay",
      design_ref="DESIGN.md 5 C11")

claim("C13",
      text="TLC decides exactly per state of spec/Convex3.tla / spec/Polygon2.tla whether a circum-ball exists (lifted integer "
           "determinant: cospherical / concyclic) and emits the exact centred balls (centre = exact centroid; max squared "
           "vertex distance; min facet/edge distance as a min-term), and from spec/Curved.tla the largest/smallest semi-axis; "
           "replayed into Polygon, ConvexPolygon, Polyhedron, ConvexPolyhedron, Circle, Ellipse, Sphere, Ellipsoid under "
           "rational placements (scales 1e-3..1e3). Minimal bounding balls are judged by the definition (encloses every exact "
           "vertex; centre in the hull of the touched vertices), in-balls a posteriori against the exact face planes / edges.",
      note="Not decided exactly: existence of in-balls (irrational normal lengths) - a RuntimeError is contested only when an "
           "independent tangency solve finds a ball; exact rational miniball arithmetic does not fit TLC's 32-bit integers.",
      technique="TLA+ model checking (TLC) of exact existence predicates and centred balls + spec-to-code replay + definitional certificates",
      design_ref="DESIGN.md 5 C13")


claim("C14",
      text="For every convex polygon state of spec/Polygon2.tla TLC computes, in integers scaled by the centroid's denominator, the "
           "exact ray parameter from the exact centroid through the unique exit edge along integer directions (towards every "
           "vertex, along axes and diagonals, generic ones); replayed into ConvexPolygon.distance_to_surface with theta = atan2(u) "
           "+ 2 pi k (k = -2..2) as one array, under in-plane rational rotations/offsets/scales 1e-3..1e3; Circle/Ellipse against "
           "the radial term of spec/Curved.tla; ConvexSpheropolygon by the defining identity on its output (the returned point "
           "lies at distance r from the exact core polygon) for radii 0..10 core sizes.",
      note="Directions are rational (dense, not exhaustive). Known finding spheropolygon-irregular-core (rewrite needed).",
      technique="TLA+ model checking (TLC) of exact ray/edge hits + spec-to-code replay + definitional identity on outputs",
      design_ref="DESIGN.md 5 C14")


claim("C12",
      text="Exact Fourier integrals computed by TLC: voxel solids of spec/Voxel3.tla at q = (pi/2) m (every phase a power of -i, F = "
           "Gaussian integer x 2^nz / (pi^nz prod m), with F(0) = V and G(-m) = (-1)^nz conj G(m) checked in the spec); lattice "
           "polygons of spec/Polygon2.tla at q = pi m by the simplex formula over the growth triangulation (pi^2 F rational); "
           "spheres at |q| R in (pi/2) Z in closed form; replayed into Polyhedron, Polygon (both orientations and normals, extra q "
           "component along the normal) and Sphere under rational placements with the translation phase, as batches and single "
           "vectors, with conjugate symmetry and density linearity; and |q| size in {1e-3, 1e-2, 0} against the second-order Taylor "
           "value from the exact moments of Convex3/Voxel3 states with a rigorous remainder bound.",
      note="Generic real q is reached only through relations and the small-q enclosure. Tolerance 1e-8 V on the lattices, 1e-6 V in "
           "the small-q regime (the implementation's sums cancel like 1/(|q| size)^2; measured 2e-8 V).",
      technique="TLA+ model checking (TLC) with exact Gaussian-integer Fourier sums + spec-to-code replay",
      design_ref="DESIGN.md 5 C12")


claim("C17",
      text="spec/Families.tla transcribes the plane tables of the 323+ and 423 truncation families and computes, for every point of "
           "rational parameter grids (interior, edges, corners, points a few 1e-4 from the degenerate loci, points outside the "
           "domain), the exact vertex set of the half-space intersection by integer Cramer's rule, the minimal vertex separation "
           "and the domain verdict (T1: the corners are the documented solids by vertex count); get_shape must return exactly "
           "that set (ValueError only if vertices are closer than 1e-4), TruncatedTetrahedronFamily is the a = 1 edge, "
           "out-of-domain values (by 1e-9, by 1, nan) raise ValueError; spec/UniformFamilies.tla gives (V,E,F) and face-degree "
           "multisets of the n-gon, prism, antiprism, pyramid and dipyramid families for every n and the documented corner "
           "solids of Family523, checked together with unit volume/area, centring, equal edges and regular faces.",
      note="Family523 is decided at its corners and domain boundary only (exact Q(sqrt5) intersection not built); uniform families' "
           "metric facts are float relations on the implementation's output.",
      technique="TLA+ model checking (TLC) of exact half-space intersections over parameter grids + spec-to-code replay",
      design_ref="DESIGN.md 5 C17")

claim("C18",
      text="spec/Tabulated.tla holds the textbook (V,E,F) table of the Platonic, Archimedean and Catalan solids (duality, Euler and "
           "distinctness proved by TLC), all family sizes, and the loader protocol of the DOI repositories as a state machine "
           "(LoaderMonotone, Idempotent; every transition replayed on a fresh mapping); all 290 entries are enumerated "
           "exhaustively: class, counts vs. table, iteration order and identity with get_shape incl. after the caller mutated a "
           "yielded shape, unknown names/DOIs, cross-references of the science.1220869 repository, and unit volume, equal edges, "
           "regular faces, insphere on the implementation's vertices.",
      note="Metric predicates are float relations; Johnson solids have no per-solid reference counts in the table.",
      technique="TLA+ reference table and loader state machine checked by TLC + exhaustive conformance over all entries",
      design_ref="DESIGN.md 5 C18")


claim("C09",
      text="spec/Placement.tla states per observable kind how the observable of g.x follows from that of x under a similarity g = "
           "(s, R, t) and under relabelling, and TLC proves these laws against the definitions of Geom3 (volume, first and second "
           "moments, facets, primitive normals, offsets) on the lattice symmetry group for every lattice polytope state; the harness "
           "applies the same law table to EVERY public observable found by reflection on all ten classes: the shape built from "
           "transformed / relabelled coordinates must show Law_g of what the shape built from the original coordinates shows "
           "(rational and seeded random proper rotations, offsets of ten diameters, scales 1e-3..1e3, vertex permutations, face "
           "shifts), including exception behaviour, containment of mapped query points (with points in degenerate alignment to the "
           "axis-aligned original) and form factors with the translation phase.",
      note="Metamorphic relation between two runs of the implementation; exact values are bound by the other checks. Query points "
           "closer than 1e-6 sizes to the boundary (measured independently) are not asserted. Observables missing from the law "
           "table are listed in the evidence.",
      technique="TLA+ model checking (TLC) of covariance laws on the lattice symmetry group + metamorphic conformance by reflection",
      design_ref="DESIGN.md 5 C09")


# ---- later extensions of the specification (round 2), appended to the claims they serve ---------------------------------
_ADD = {
    "C02": "Polyhedron copies of the convex lattice polytopes of spec/Convex3.tla (faces with 3..n corners) are replayed against "
           "the same exact records as C01. spec/Prism3.tla adds extruded non-convex lattice polygons (named combs, saw, spiral, zig-zag, star of "
           "spec/MC_Polygon2.tla and randomly grown ones) with caps cut into the triangles of the growth triangulation: exact "
           "measures by Fubini from the polygon's exact moments, and the T1 theorem that the divergence-theorem sums over the "
           "mesh's surface triangles equal them.",
    "C08": "ShapeMachine has SetSizeNear (a target 3e-6 away from the current value is still a target) and SetCentroidBad (a malformed "
           "centre is refused without touching the shape, or accepted). The histories include Read(shape)/Read(core) and SetCoreCentroid; the live core's projection and containment are compared after every step.",
    "C03": "SetSizeNear, SetCentroidBad and a base a hundred thousand sizes from the origin are part of the machine. SetCentroid has the target 'nudge' (a move that is small only in numpy's default sense); bases include nanometre-sized and "
           "vertex-mean-zero shapes. The projection that is compared after every transition also calls the queries that take arguments "
           "(compute_form_factor_amplitude at fixed q, distance_to_surface at fixed angles); ShapeMachine has the action "
           "SetCoreSize (resizing the live core that a rounded shape hands out); long random walks over the TLC state graph "
           "are replayed in addition to one test per transition. Read(shape)/Read(core) (every query, between mutations) and SetCoreCentroid are actions; the projection compared after every step includes containment at points laid out around the current vertices and the full projection of the live core of a rounded shape.",
    "C04": "Explicit normals come in lengths 3, 1, 1 + 3e-6 and 0.999995; placements include a one-milliradian tilt, a micrometre copy "
           "and a copy 1e5 diameters from the origin. The named many-cornered polygons of spec/MC_Polygon2.tla (6-16 vertices, every relabelling) go through the same T1 "
           "theorems and the same replay.",
    "C01": "Placements include a one-milliradian tilt and micrometre / nanometre copies a few diameters from the origin.",
    "C07": "The T3 traces include a nearly-flat-ridge family (the Lifted universe: nine facets for every positive push; objects "
           "built with a push of 1e-3 .. 1e-8 of the edge are validated against the lattice member of the family). Sort and merge traces are also recorded with one vertex of the polytope at the origin (facet planes with offset exactly 0), unrotated and rotated.",
    "C10": "The ellipse perimeter has two rigorous enclosures (Gauss-Kummer series and Gauss's AGM, tight for needles up to "
           "aspect ratio 2000) that must intersect; eccentricity is compared on e^2.",
    "C11": "Named cores with one extreme feature each: Knife (dihedral 0.76 degrees), Blade, Slab, Spike. The same shapes are also reached by a history (spec/ShapeMachine.tla, ReachByHistory; vh/history.py): constructed similar and elsewhere, asked every query (shape and live core), resized and moved by public setters with queries in between, then held to the same exact values.",
    "C13": "Circle centres must lie in the polygon's plane. A prism over an irregular cyclic octagon (degenerate for the randomised "
           "minimal-ball solver) is queried thousands of times under seeded generator states. The same shapes are also reached by a history (spec/ShapeMachine.tla, ReachByHistory; vh/history.py): constructed similar and elsewhere, asked every query (shape and live core), resized and moved by public setters with queries in between, then held to the same exact values.",
    "C15": "Non-planar inputs are also offered at micrometre scale. spec/MC_Ctor2.tla classifies the named polygons (6-16 vertices) with "
           "two entries exchanged; they are replayed in every cyclic shift and both directions.",
    "C16": "Single queries also run on a nanometre-sized base.",
    "C05": "ConvexPolyhedron is also queried with the origin between centroid and farthest vertex, at the centroid and at a vertex, "
           "on slender asymmetric solids (Spike, SkewSpike). Rounded solids with general convex cores: exact squared point-polytope distances from spec/Convex3.tla (DistSq) on "
           "random lattice cores and on named cores where sharp ridges meet nearly flat facets (Blade, Slab, Ridge). The same shapes are also reached by a history (spec/ShapeMachine.tla, ReachByHistory; vh/history.py): constructed similar and elsewhere, asked every query (shape and live core), resized and moved by public setters with queries in between, then held to the same exact values.",
    "C06": "Circles and ellipses down to 1e-7 in size. The named many-cornered polygons of spec/MC_Polygon2.tla are included with every relabelling.",
    "C09": "spec/Prism3.tla: prisms over named and grown non-convex lattice polygons whose caps are single non-convex faces are "
           "replayed as Polyhedron for EVERY start vertex of the cap faces (exact centroid and membership; every other observable "
           "must do for the shifted labelling what it does for the listed one). spec/AlgPolygon.tla transcribes polytri's ear "
           "clipping; T1_Triangulate proves on every relabelling of every polygon state that the loop terminates and tiles (a "
           "wrong loop variant is refuted as a canary), and what the code returns for placed polygons is validated as a tiling.",
    "C12": "Spheres of spec/Curved.tla at |q| R in {1e-3 .. 1} by the alternating series of (sin x - x cos x)/x^3. After the first evaluation the volume setter doubles the size and the transform is evaluated again against the same "
           "exact record (F'(q/2) = 8 F(q)).",
    "C14": "Angles a few ulps below a multiple of 2 pi are included. Placements include edges leaning 4e-6 rad from the axes and a nanometre-sized copy. The same shapes are also reached by a history (spec/ShapeMachine.tla, ReachByHistory; vh/history.py): constructed similar and elsewhere, asked every query (shape and live core), resized and moved by public setters with queries in between, then held to the same exact values. The live core of a rounded polygon reached this way is held to the polygon's exact radial distances too.",
    "C17": "spec/Family523.tla decides the 523 family exactly over Q(sqrt5) (plane set from the symmetry description with the "
           "T1 theorem of icosahedral invariance; irrational corners, edges, interior and outside points). spec/Factory.tla states the factory contract (the answer for a key is the shape the key defines, whatever was "
           "requested before or done to earlier answers); all its Get/Mutate histories are replayed against every parametric family.",
    "C18": "Unknown keys include numbers, None, tuples and bytes. The Get/Mutate histories of spec/Factory.tla are replayed against get_shape of every tabulated family and repository.",
    "C19": "Bases include a nanometre-sized solid, a solid whose vertex mean (not its centroid) is the origin and an ellipsoid a "
           "hundred thousand sizes from the origin. The dispatch table distinguishes an absent, positive, zero and negative rounding radius, and rounded shapes are "
           "round-tripped with radius exactly 0 as well.",
    "C20": "The eight-cell voxel ring (genus 1) is always among the exported solids. spec/MeshWriters.tla transcribes the writers; T1: Read(Write(m)) = m for every mesh state, wrong writers rejected.",
}
for _k, _v in _ADD.items():
    REG[_k]["text"] += " " + _v
