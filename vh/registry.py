"""Single source for MANIFEST.json (tools/gen_manifest.py). One entry per property."""

# property id -> dict(claimed, text, note, technique, design_ref) ; unclaimed -> reason
REG = {}


def claim(pid, text, note, technique, design_ref):
    REG[pid] = dict(claimed=True, text=text, note=note, technique=technique, design_ref=design_ref)


def unclaimed(pid, reason):
    REG[pid] = dict(claimed=False, reason=reason)


for _i in range(1, 21):
    unclaimed(f"C{_i:02d}", "check not built yet in this round; will be decided with the TLA+ specification (see DESIGN.md section 5)")


claim("C04",
      text="TLC exhaustively enumerates the simple lattice polygons of spec/Polygon2.tla (ear-growth machine, all reversals "
           "and start vertices), proves inside the specification that the shoelace/centroid/second-moment formulas as coded "
           "(spec/AlgPolygon.tla) equal the integrals over the growth triangulation (spec/Geom2.tla), and emits the exact "
           "values; every emitted state is replayed into coxeter.shapes.Polygon/ConvexPolygon under rational similarity "
           "placements and compared at 1e-9 relative. Bounded model checking + conformance replay is the right level: the "
           "property is a universally quantified numeric identity whose case analysis (orientation, normal choice, reflex "
           "first corner, embedding) is finite and small.",
      note="Trusted: TLC, vh/terms.py, vh/placement.py (covariance laws applied in Fraction arithmetic), tolerance table "
           "(DESIGN 4.3). Not decided: generic non-lattice polygons; planar moments for polygons outside the xy-plane "
           "(the statement restricts them to the xy-plane with +z normal).",
      technique="TLA+ model checking (TLC) of an exact-arithmetic polygon state machine + spec-to-code replay",
      design_ref="DESIGN.md 5 C04")
