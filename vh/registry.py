"""Single source for MANIFEST.json (tools/gen_manifest.py). One entry per property."""

# property id -> dict(claimed, text, note, technique, design_ref) ; unclaimed -> reason
REG = {}


def claim(pid, text, note, technique, design_ref):
    REG[pid] = dict(claimed=True, text=text, note=note, technique=technique, design_ref=design_ref)


def unclaimed(pid, reason):
    REG[pid] = dict(claimed=False, reason=reason)


for _i in range(1, 21):
    unclaimed(f"C{_i:02d}", "check not built yet in this round; will be decided with the TLA+ specification (see DESIGN.md section 5)")
