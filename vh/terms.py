"""Evaluation of the exact terms the specification emits (trusted base, deliberately small).

A term is one of
  int                                   integer
  [n, d]                                rational n/d            (list of two ints)
  {"q":[n,d]}                           rational
  {"ref":name}                          a named parameter, looked up in env (env values are terms or numbers)
  {"sqrt":T} {"acos":T} {"asin":T} {"ln":T}   irrational functions of a term
  {"pi":k,"x":T}                        T * pi**k
  {"sum":[T..]}  {"mul":[T..]}          finite sums / products
  {"div":[T,T]}                         quotient
  {"pow":k,"x":T}                       T**k (k integer)
  {"min":[T..]}  {"max":[T..]}          smallest / largest of finitely many terms
  {"encl":[Tlo,Thi]}                    rigorous enclosure -> (lo, hi)
  {"vec":[T..]} / nested lists          elementwise
Rationals stay exact (fractions.Fraction).  pi and square roots are carried as 50-digit rational
approximations so that sums/products stay far more accurate than the double-precision values they are compared
with; acos/asin/ln are evaluated in double precision.
"""
import math
from fractions import Fraction

PI = Fraction(314159265358979323846264338327950288419716939937510, 10 ** 50)
_SCALE = 10 ** 45


def _sqrt(v):
    v = Fraction(v)
    if v < 0:
        raise ValueError("sqrt of negative term")
    rn, rd = math.isqrt(v.numerator), math.isqrt(v.denominator)
    if rn * rn == v.numerator and rd * rd == v.denominator:
        return Fraction(rn, rd)
    return Fraction(math.isqrt(v.numerator * _SCALE * _SCALE // v.denominator), _SCALE)


class Env(dict):
    pass


def make_env(pairs, extra=None):
    """pairs: list of [name, term] bound in order (later entries may refer to earlier ones)."""
    env = Env()
    for name, t in pairs:
        env[name] = ev(t, env)
    if extra:
        env.update(extra)
    return env


def ev(t, env=None):
    """Evaluate a term to a Fraction (float if acos/asin/ln occur); lists map elementwise."""
    if isinstance(t, bool):
        return t
    if isinstance(t, (int, Fraction)):
        return Fraction(t)
    if isinstance(t, float):
        return t
    if isinstance(t, list):
        if len(t) == 2 and all(isinstance(x, int) and not isinstance(x, bool) for x in t):
            return Fraction(t[0], t[1])
        return [ev(x, env) for x in t]
    if isinstance(t, dict):
        if "q" in t:
            return Fraction(t["q"][0], t["q"][1])
        if "ref" in t:
            return env[t["ref"]]
        if "vec" in t:
            return [ev(x, env) for x in t["vec"]]
        if "encl" in t:
            return (ev(t["encl"][0], env), ev(t["encl"][1], env))
        if "sqrt" in t:
            v = ev(t["sqrt"], env)
            return math.sqrt(v) if isinstance(v, float) else _sqrt(v)
        if "acos" in t:
            return math.acos(max(-1.0, min(1.0, float(ev(t["acos"], env)))))
        if "asin" in t:
            return math.asin(max(-1.0, min(1.0, float(ev(t["asin"], env)))))
        if "ln" in t:
            return math.log(float(ev(t["ln"], env)))
        if "pi" in t:
            v = ev(t.get("x", 1), env)
            k = t["pi"]
            return v * (math.pi ** k) if isinstance(v, float) else v * PI ** k
        if "sum" in t:
            vs = [ev(x, env) for x in t["sum"]]
            if any(isinstance(v, float) for v in vs):
                return math.fsum(float(v) for v in vs)
            return sum(vs, Fraction(0))
        if "mul" in t:
            r = Fraction(1)
            for x in t["mul"]:
                v = ev(x, env)
                r = float(r) * float(v) if isinstance(r, float) or isinstance(v, float) else r * v
            return r
        if "div" in t:
            a, b = ev(t["div"][0], env), ev(t["div"][1], env)
            return float(a) / float(b) if isinstance(a, float) or isinstance(b, float) else a / b
        if "min" in t or "max" in t:
            vs = [ev(x, env) for x in (t.get("min") or t.get("max"))]
            return (min if "min" in t else max)(vs, key=float)
        if "pow" in t:
            v = ev(t["x"], env)
            return v ** t["pow"]
    raise ValueError(f"not a term: {t!r}")


def fl(t, env=None):
    v = ev(t, env)
    return _fl(v)


def _fl(v):
    if isinstance(v, (list, tuple)):
        return [_fl(x) for x in v]
    return float(v)
