"""Evaluation of the exact terms the specification emits (trusted base, deliberately small).

A term is one of
  int                                   integer
  [n, d]                                rational n/d            (list of two ints)
  {"q":[n,d]}                           rational
  {"sqrt":T}  {"acos":T}                irrational functions of a term
  {"pi":k,"x":T}                        T * pi**k
  {"sum":[T..]}  {"mul":[T..]}          finite sums / products
  {"div":[T,T]}                         quotient
  {"pow":k,"x":T}                       T**k (k integer)
  {"vec":[T..]}                         vector / nested -> list
Fractions are kept exact as long as possible; irrational parts are evaluated in double precision.
"""
import math
from fractions import Fraction


def is_exact(v):
    return isinstance(v, (int, Fraction))


def ev(t):
    """Evaluate a term to Fraction when exact, else float; lists map elementwise."""
    if isinstance(t, bool):
        return t
    if isinstance(t, int):
        return Fraction(t)
    if isinstance(t, Fraction):
        return t
    if isinstance(t, float):
        return t
    if isinstance(t, list):
        if len(t) == 2 and all(isinstance(x, int) and not isinstance(x, bool) for x in t):
            return Fraction(t[0], t[1])
        return [ev(x) for x in t]
    if isinstance(t, dict):
        if "q" in t:
            return Fraction(t["q"][0], t["q"][1])
        if "vec" in t:
            return [ev(x) for x in t["vec"]]
        if "sqrt" in t:
            v = ev(t["sqrt"])
            if is_exact(v):
                v = Fraction(v)
                rn, rd = math.isqrt(v.numerator), math.isqrt(v.denominator)
                if rn * rn == v.numerator and rd * rd == v.denominator:
                    return Fraction(rn, rd)
            return math.sqrt(float(v))
        if "acos" in t:
            return math.acos(max(-1.0, min(1.0, float(ev(t["acos"])))))
        if "pi" in t:
            k = t["pi"]
            v = ev(t.get("x", 1))
            return float(v) * math.pi ** k if k != 0 else v
        if "sum" in t:
            vs = [ev(x) for x in t["sum"]]
            ex = [v for v in vs if is_exact(v)]
            fl = [float(v) for v in vs if not is_exact(v)]
            s = sum(ex, Fraction(0))
            return s if not fl else math.fsum([float(s)] + fl)
        if "mul" in t:
            r = Fraction(1)
            for x in t["mul"]:
                v = ev(x)
                r = r * v if is_exact(r) and is_exact(v) else float(r) * float(v)
            return r
        if "div" in t:
            a, b = ev(t["div"][0]), ev(t["div"][1])
            return a / b if is_exact(a) and is_exact(b) else float(a) / float(b)
        if "pow" in t:
            v = ev(t["x"])
            return v ** t["pow"]
    raise ValueError(f"not a term: {t!r}")


def fl(t):
    v = ev(t)
    if isinstance(v, list):
        return _fl_list(v)
    return float(v)


def _fl_list(v):
    return [_fl_list(x) if isinstance(x, list) else float(x) for x in v]
