"""T3 for C07: record the discrete structure of real coxeter objects and have TLC validate the traces
against spec/TraceStructure.tla."""
import json
import os
import random
import tempfile

from . import tlc
from .common import MachineryError, scratch
from .placement import Placement, fl, palette
from .polygon_driver import h
from .pool import pmap

CFG = """SPECIFICATION Spec
PROPERTY StaysSorted
CHECK_DEADLOCK FALSE
"""


def _proj(P, with_simplices=False):
    import numpy as np
    d = {"faces": [[int(i) for i in f] for f in P.faces],
         "neighbors": [[int(i) for i in nb] for nb in P.neighbors],
         "edges": [[int(a), int(b)] for a, b in np.asarray(P.edges)],
         "num_edges": int(P.num_edges)}
    if with_simplices:
        d["simplices"] = [[int(i) for i in s] for s in np.asarray(P.simplices)]
    return d


def record(job):
    """job: rec, pl, seed, kind in {'convex','sort','merge'}; returns a trace dict (or an error record)."""
    import numpy as np
    import coxeter
    rec, kind = job["rec"], job["kind"]
    pl = Placement.from_json(job["pl"])
    rnd = random.Random(job["seed"])
    n = len(rec["v"])
    perm = list(range(n))
    rnd.shuffle(perm)                     # new index i holds base vertex perm[i]
    inv = [0] * n
    for i, p in enumerate(perm):
        inv[p] = i
    pts = [rec["v"][p] for p in perm]
    coords = pts
    if job.get("morph"):
        # the lattice polytope of the trace (pts) is the combinatorial type; the object is built from a member of the same
        # one-parameter family whose distinguishing feature is much smaller: vertex `frm + lam * (to - frm)` instead of `to`
        from fractions import Fraction as F
        m = job["morph"]
        lam = F(m["lam"][0], m["lam"][1])
        if m.get("squash"):
            # an invertible affine map preserves the combinatorial type of the convex hull: z -> lam z turns every polytope
            # into a thin plate whose side faces have an aspect ratio of 1 / lam
            coords = [[F(p[0]), F(p[1]), lam * F(p[2])] for p in pts]
        else:
            coords = [[F(m["frm"][k]) + lam * (F(p[k]) - F(m["frm"][k])) for k in range(3)] if list(p) == list(m["to"]) else p for p in pts]
    verts = np.array(fl(pl.points(coords)), dtype=float)
    tr = {"tid": job["tid"], "pts": pts, "kind": kind, "events": [], "given": []}
    try:
        if kind == "convex":
            P = coxeter.shapes.ConvexPolyhedron(verts)
            tr["events"].append(dict(ev="convex", **_proj(P, True)))
            return tr
        facets = [[inv[i] for i in f["cyc"]] for f in sorted(rec["facets"], key=lambda f: f["cyc"])]
        rnd.shuffle(facets)
        if kind == "sort":
            given = []
            for c in facets:
                c = list(c)
                mode = rnd.randrange(4)
                k = rnd.randrange(len(c))
                c = c[k:] + c[:k]
                if mode == 1:
                    c = c[::-1]
                elif mode == 2:
                    rnd.shuffle(c)
                given.append(c)
            P = coxeter.shapes.Polyhedron(verts, [np.array(c) for c in given], faces_are_convex=True)
            tr["given"] = given
            tr["events"].append({"ev": "construct", "faces": [[int(i) for i in f] for f in P.faces],
                                 "neighbors": [], "edges": [], "num_edges": 0})
            if job["seed"] % 2:
                _ = P.edges          # history: the edge list was read before sorting
            P.sort_faces()
            tr["events"].append(dict(ev="sort_faces", **_proj(P)))
            if job["seed"] % 3 == 0:
                P.sort_faces()
                tr["events"].append(dict(ev="sort_faces", **_proj(P)))
        else:
            given = []
            for c in facets:
                for k in range(1, len(c) - 1):
                    t = [c[0], c[k], c[k + 1]]
                    if rnd.randrange(3) == 0:
                        t = t[::-1]
                    given.append(t)
            rnd.shuffle(given)
            P = coxeter.shapes.Polyhedron(verts, [np.array(c) for c in given])
            tr["given"] = given
            tr["events"].append({"ev": "construct", "faces": [[int(i) for i in f] for f in P.faces],
                                 "neighbors": [], "edges": [], "num_edges": 0})
            if job["seed"] % 2:
                _ = P.edges
            P.merge_faces()
            tr["events"].append(dict(ev="merge_faces", **_proj(P)))
    except Exception as e:
        tr["error"] = f"{type(e).__name__}: {e}"
    return tr


def canaries(traces):
    """Corrupted copies of a recorded trace that the trace spec must reject (binding demonstration)."""
    import copy
    out = []
    src = next((t for t in traces if t["kind"] == "convex" and len(t["events"][0]["faces"]) >= 4), None)
    if src is None:
        return out
    a = copy.deepcopy(src)
    a["tid"] = -1
    a["events"][0]["faces"][1] = a["events"][0]["faces"][1][::-1]          # a mirrored face cycle
    b = copy.deepcopy(src)
    b["tid"] = -2
    b["events"][0]["neighbors"][0] = b["events"][0]["neighbors"][0][1:]       # a lost neighbour
    c = copy.deepcopy(src)
    c["tid"] = -3
    c["events"][0]["edges"] = c["events"][0]["edges"][:-1]                    # a lost edge
    d = copy.deepcopy(src)
    d["tid"] = -4
    d["events"][0]["simplices"][0] = d["events"][0]["simplices"][0][::-1]     # an inward simplex
    return [a, b, c, d]


def validate(ctx, traces, what):
    can = canaries(traces)
    traces = traces + can
    d = tempfile.mkdtemp(prefix="trace.", dir=scratch())
    path = os.path.join(d, "traces.json")
    with open(path, "w") as f:
        json.dump(traces, f)
    res = tlc.run("TraceStructure", CFG, workers=1, timeout=1500, env={"TRACE_FILE": path})
    ctx.tlc(res, what)
    nev = sum(len(t["events"]) for t in traces)
    if res.violated:
        raise MachineryError(f"trace spec property {res.violated} violated: {res.stdout[-1500:]}")
    if res.distinct != nev + 1:
        raise MachineryError(f"trace validation consumed {res.distinct - 1} of {nev} events: {res.stdout[-1500:]}")
    rej = [r for r in res.records if r.get("k") == "reject"]
    got = {r["tid"] for r in rej if r["tid"] < 0}
    if got != {c["tid"] for c in can}:
        raise MachineryError(f"trace spec failed to reject corrupted canary traces: rejected {sorted(got)}")
    ctx.extra["canary_traces_rejected"] = len(got)
    return [r for r in rej if r["tid"] >= 0]


def run(ctx, recs):
    quick = ctx.tier == "quick"
    small = [r for r in recs if len(r["v"]) <= 14]
    rnd = random.Random(ctx.seed + 7)
    rnd.shuffle(small)
    chosen = small[: (120 if quick else 1500)]
    jobs = []
    pal = palette(7, ctx.tier)
    for k, r in enumerate(chosen):
        for kind in ("convex", "sort", "merge"):
            pl = pal[(h(r["v"], ctx.seed) + len(kind)) % len(pal)]
            jobs.append({"rec": r, "pl": pl.to_json(), "seed": ctx.seed * 1000 + k * 3 + len(kind),
                         "kind": kind, "tid": len(jobs)})
    # facet planes through the origin (plane offset exactly 0, where a sign convention on the offset has nothing to hold on to):
    # the polytope translated so that one of its vertices is the origin, unrotated and rotated by the rational quaternion of rot9
    from .placement import Placement as _Pl
    for k, r in enumerate(chosen[: (40 if quick else 400)]):
        v0 = r["v"][(k + ctx.seed) % len(r["v"])]
        for kind in ("merge", "sort"):
            pls = [_Pl(t=(-v0[0], -v0[1], -v0[2]), name="vertex_at_origin")]
            if kind == "merge":
                rot = _Pl(q=(1, 2, 2, 0), name="rot9_only")
                w = rot.rot(v0)
                pls.append(_Pl(q=(1, 2, 2, 0), t=(-w[0], -w[1], -w[2]), name="rot9_vertex_at_origin"))
            for pl in pls:
                jobs.append({"rec": r, "pl": pl.to_json(), "seed": ctx.seed * 1000 + 13 * k + len(kind), "kind": kind, "tid": len(jobs)})
    # nearly flat ridges: the cube with one corner pushed out along the diagonal has nine facets for EVERY positive push; the
    # recorded structure of the object with a push of 1e-3 .. 1e-8 of the edge must be that of the lattice member of the family
    from . import convex_driver as cd
    for r in [x for x in cd.emit(ctx, "Lifted", 8, minpts=8) if len(x["v"]) == 8]:
        for i, lam in enumerate(([1, 1], [1, 1000], [1, 250000], [1, 10 ** 8])):
            for pl in (pal[0], pal[2], pal[3]):
                jobs.append({"rec": r, "pl": pl.to_json(), "seed": ctx.seed * 1000 + 7 * i + len(jobs), "kind": "convex", "tid": len(jobs),
                             "morph": {"to": [3, 3, 3], "frm": [2, 2, 2], "lam": lam}})
    # thin plates: a sample of the polytopes squashed along z by 1e-3 and 1e-7 (same combinatorial type), as ConvexPolyhedron and
    # through Polyhedron.sort_faces (merge_faces decides by a tolerance and is not asked about plates)
    plates = [x for u, n in (("Prism6", 12), ("Frustum", 8)) for x in cd.emit(ctx, u, n, minpts=n) if len(x["v"]) == n]
    for k, r in enumerate(plates * (3 if quick else 12) + [x for x in chosen if any(len(f["cyc"]) >= 4 for f in x["facets"])][: (12 if quick else 150)]):
        for lam in ([1, 1000], [1, 10 ** 7]):
            for kind in ("convex", "sort"):
                jobs.append({"rec": r, "pl": pal[(k + len(kind)) % 4].to_json(), "seed": ctx.seed * 1000 + 11 * k + len(kind) + lam[1] % 7,
                             "kind": kind, "tid": len(jobs), "morph": {"squash": True, "lam": lam}})
    traces = pmap(record, jobs)
    good = []
    for job, tr in zip(jobs, traces):
        tags = [job["kind"], "nv%d" % len(job["rec"]["v"])] + ((["thin_plate"] if job["morph"].get("squash") else ["nearly_flat_ridge"]) if job.get("morph") else [])
        if "error" in tr:
            ctx.violation({"cls": "Polyhedron" if job["kind"] != "convex" else "ConvexPolyhedron",
                           "obs": {"convex": "construct", "sort": "sort_faces", "merge": "merge_faces"}[job["kind"]],
                           "tags": tags + ["raised"], "msg": f"operation raised {tr['error']}"}, {"job": job, "trace": tr})
        else:
            good.append(tr)
    rejects = validate(ctx, good, f"TraceStructure: {len(good)} recorded traces")
    bytid = {t["tid"]: t for t in good}
    for rj in rejects:
        tr = bytid[rj["tid"]]
        ctx.violation({"cls": "ConvexPolyhedron" if tr["kind"] == "convex" else "Polyhedron", "obs": rj["ev"],
                       "tags": [tr["kind"], rj["why"], "edges_read_before" if jobs[rj["tid"]]["seed"] % 2 else "fresh"],
                       "msg": f"recorded event {rj['ev']} rejected by TraceStructure.tla: clause {rj['why']} fails"},
                      {"job": jobs[rj["tid"]], "trace": tr, "reject": rj})
    for tr in good:
        ctx.case(("trace", json.dumps(tr["pts"]), tr["kind"]), sample=None)
        ctx.traces += 1
    if good and len(ctx.samples) < 3:
        ctx.samples.append({"recorded_trace": good[0]})
    ctx.extra["traces_validated_by_tlc"] = len(good)
    ctx.extra["trace_events"] = sum(len(t["events"]) for t in good)
