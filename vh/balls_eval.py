"""C13: bounding, bounded, circum- and in-balls against their definitions, with exact data from Convex3.tla, Polygon2.tla
and Curved.tla (centred balls and existence of circumballs decided exactly by TLC; minimal bounding balls and in-balls checked a
posteriori against the definition on the exact vertices / planes)."""
import json
import math
import random
import warnings
from fractions import Fraction as F

from .placement import Placement, fl, palette
from .polygon_driver import h
from .terms import ev, make_env

warnings.filterwarnings("ignore")


def _hull_contains(center, pts, tol):
    """Is center in the convex hull of pts (rows)?  Non-negative least squares with sum(lambda) = 1."""
    import numpy as np
    from scipy.optimize import nnls
    A = np.vstack([np.asarray(pts, dtype=float).T, 1e3 * np.ones(len(pts))])
    b = np.concatenate([np.asarray(center, dtype=float), [1e3]])
    lam, res = nnls(A, b)
    return res <= tol


def check_min_ball(name, ball, verts, size, bad, dim):
    """Definition of the minimal bounding ball: contains every vertex; minimal iff its centre lies in the convex hull of the
    vertices on its boundary."""
    import numpy as np
    c = np.asarray(ball.centroid, dtype=float).ravel()[:3]
    r = float(ball.radius)
    d = np.linalg.norm(verts - c, axis=1)
    if not (r > 0 and np.all(d <= r * (1 + 1e-7) + 1e-9 * size)):
        bad(name, f"the ball (r = {r!r}) does not contain every vertex: farthest vertex at {float(d.max())!r}", ["not_enclosing"])
        return
    support = verts[d >= r * (1 - 1e-6) - 1e-9 * size]
    if len(support) == 0 or not _hull_contains(c, support, 1e-5 * (r + size) * 1e3 ** 0):
        bad(name, f"the ball (r = {r!r}) is not the smallest one: its centre is not in the hull of the {len(support)} "
            "vertices it touches", ["not_minimal"])


def eval_solid(case):
    import numpy as np
    import coxeter
    random.seed(case.get("seed", 0))
    np.random.seed(case.get("seed", 0))
    rec = case["rec"]
    pl = Placement.from_json(case["pl"])
    out = []
    tags = ["nv%d" % len(rec["v"])] + pl.tags()
    verts = np.array(fl(pl.points(rec["v"])), dtype=float)
    s = float(pl.s)
    size = float(np.max(np.linalg.norm(verts - verts.mean(axis=0), axis=1)))
    far = float(np.max(np.linalg.norm(verts, axis=1)))
    B = rec["curv"]["balls"]
    cen = np.array(fl(pl.point([F(x, B["den"]) for x in rec["cen24"]])))
    planes = []
    for f in rec["facets"]:
        n = np.array(fl(pl.rot(f["n"])))
        nn = math.sqrt(sum(x * x for x in f["n"]))
        off = float(pl.s * f["off"] + sum(pl.rot(f["n"])[i] * pl.t[i] for i in range(3)))
        planes.append((n / nn, off / nn))                      # unit normal u, offset d: u.x = d on the facet
    for cls, how in (("ConvexPolyhedron", []), ("Polyhedron", []), ("ConvexPolyhedron", ["reached_by_history"])):
        def bad(obs, msg, extra=()):
            out.append(({"cls": cls, "obs": obs, "tags": tags + how + list(extra), "msg": msg + (" (shape reached through queries and setters)" if how else "")},
                        {"case": case, "cls": cls, "obs": obs}))
        try:
            if how:
                # the same polyhedron built 700 times larger elsewhere, queried, and brought here by the volume and centroid
                # setters (ShapeMachine: ReachByHistory): the balls are those of the current geometry
                from .history import reach
                P = reach("ConvexPolyhedron", verts, variant=1)
                if P is None:
                    continue
            else:
                P = coxeter.shapes.ConvexPolyhedron(verts.copy())
                if cls == "Polyhedron":
                    P = coxeter.shapes.Polyhedron(verts.copy(), [np.array(f) for f in P.faces], faces_are_convex=True)
        except Exception as e:
            bad("construct", f"rejected: {e}")
            continue
        # minimal bounding sphere (definition check); the solver is randomised and retries: degenerate vertex sets are asked
        # again under many states of the global generators
        try:
            for rep in range(0 if how else case.get("repeat", 0)):
                random.seed(1000 * case.get("seed", 0) + rep)
                np.random.seed(1000 * case.get("seed", 0) + rep)
                before = len(out)
                check_min_ball("minimal_bounding_sphere", P.minimal_bounding_sphere, verts, size, bad, 3)
                if len(out) > before:
                    out[-1][0]["tags"].append("repeated_query")
                    break
            check_min_ball("minimal_bounding_sphere", P.minimal_bounding_sphere, verts, size, bad, 3)
            if abs(P.minimal_bounding_sphere_radius - P.minimal_bounding_sphere.radius) > 1e-6 * size:
                bad("minimal_bounding_sphere_radius", "radius getter disagrees with the sphere")
        except Exception as e:
            bad("minimal_bounding_sphere", f"raised {type(e).__name__}: {e}", ["raised"])
        # circumsphere: exists iff the vertices are cospherical (decided exactly by TLC)
        try:
            S = P.circumsphere
            if not B["circum"]:
                bad("circumsphere", f"returned a sphere although the vertices are not cospherical (r = {float(S.radius)!r})", ["no_circumsphere"])
            else:
                d = np.linalg.norm(verts - np.asarray(S.centroid), axis=1)
                if np.max(np.abs(d - S.radius)) > 1e-8 * (size + far):
                    bad("circumsphere", "the sphere does not pass through every vertex", ["definition"])
        except RuntimeError:
            if B["circum"]:
                bad("circumsphere", "RuntimeError although the vertices are cospherical", ["exists_but_raised"])
        except Exception as e:
            bad("circumsphere", f"raised {type(e).__name__}: {e}", ["raised"])
        # insphere: a posteriori against the exact planes
        try:
            S = P.insphere
            c = np.asarray(S.centroid, dtype=float)
            dist = np.array([d - float(np.dot(u, c)) for u, d in planes])
            if not (S.radius > 0 and np.max(np.abs(dist - S.radius)) <= 1e-8 * (size + far)):
                bad("insphere", f"returned sphere (r = {float(S.radius)!r}) is not tangent to every face from inside "
                    f"(distances {dist.min()!r}..{dist.max()!r})", ["definition"])
        except RuntimeError:
            # no claim unless an insphere clearly exists: solve the tangency system independently
            a = np.array([list(u) + [1.0] for u, d in planes])
            b = np.array([d for u, d in planes])
            x = np.linalg.lstsq(a, b, rcond=None)[0]
            if np.max(np.abs(a @ x - b)) < 1e-11 * (size + far) and x[3] > 0:
                bad("insphere", "RuntimeError although a sphere tangent to all faces exists", ["exists_but_raised"])
        except Exception as e:
            bad("insphere", f"raised {type(e).__name__}: {e}", ["raised"])
        if cls == "ConvexPolyhedron":
            try:
                S = P.minimal_centered_bounding_sphere
                want = s * math.sqrt(B["far2"]) / B["den"]
                if abs(S.radius - want) > 1e-9 * want + 1e-14 * far or np.max(np.abs(np.asarray(S.centroid) - cen)) > 1e-9 * (size + far):
                    bad("minimal_centered_bounding_sphere", f"r = {float(S.radius)!r}, exact {want!r}; centre must be the centroid")
                if abs(P.minimal_centered_bounding_sphere_radius - want) > 1e-9 * want + 1e-14 * far:
                    bad("minimal_centered_bounding_sphere_radius", "radius getter differs from the exact value")
                S = P.maximal_centered_bounded_sphere
                want = s * float(ev(B["bounded"]))
                if abs(S.radius - want) > 1e-9 * want + 1e-14 * far or np.max(np.abs(np.asarray(S.centroid) - cen)) > 1e-9 * (size + far):
                    bad("maximal_centered_bounded_sphere", f"r = {float(S.radius)!r}, exact {want!r}; centre must be the centroid")
                if abs(P.maximal_centered_bounded_sphere_radius - want) > 1e-9 * want + 1e-14 * far:
                    bad("maximal_centered_bounded_sphere_radius", "radius getter differs from the exact value")
            except Exception as e:
                bad("centered_spheres", f"raised {type(e).__name__}: {e}", ["raised"])
    return out, {}


def eval_polygon(case):
    import numpy as np
    import coxeter
    random.seed(case.get("seed", 0))
    np.random.seed(case.get("seed", 0))
    rec = case["rec"]
    pl = Placement.from_json(case["pl"])
    out = []
    tags = ["n%d" % len(rec["v"]), "convex" if rec["convex"] else "nonconvex"] + pl.tags()
    v3 = np.array(fl(pl.points([(p[0], p[1], 0) for p in rec["v"]])), dtype=float)
    s = float(pl.s)
    size = float(np.max(np.linalg.norm(v3 - v3.mean(axis=0), axis=1)))
    far = float(np.max(np.linalg.norm(v3, axis=1)))
    B = rec["balls"]
    cen = np.array(fl(pl.point([F(rec["cnum"][0], B["den"]), F(rec["cnum"][1], B["den"]), 0])))
    nrm = np.array(fl(pl.rot([0, 0, 1 if rec["ccw"] else -1])))
    o = (rec["v"][1][0] - rec["v"][0][0]) * (rec["v"][2][1] - rec["v"][0][1]) - (rec["v"][1][1] - rec["v"][0][1]) * (rec["v"][2][0] - rec["v"][0][0])
    if o == 0:
        return out, {"unclear": 1}          # collinear first corner: the constructor cannot derive a normal (margin case)
    for cls in (["Polygon", "ConvexPolygon"] if rec["convex"] else ["Polygon"]):
        def bad(obs, msg, extra=()):
            out.append(({"cls": cls, "obs": obs, "tags": tags + list(extra), "msg": msg}, {"case": case, "cls": cls, "obs": obs}))
        try:
            P = getattr(coxeter.shapes, cls)(v3.copy(), normal=nrm)
        except Exception as e:
            bad("construct", f"rejected: {e}")
            continue
        try:
            check_min_ball("minimal_bounding_circle", P.minimal_bounding_circle, v3, size, bad, 2)
        except Exception as e:
            bad("minimal_bounding_circle", f"raised {type(e).__name__}: {e}", ["raised"])
        try:
            C = P.circumcircle
            if not B["cyclic"]:
                bad("circumcircle", f"returned a circle although the vertices are not concyclic (r = {float(C.radius)!r})", ["no_circumcircle"])
            else:
                d = np.linalg.norm(v3 - np.asarray(C.centroid), axis=1)
                if np.max(np.abs(d - C.radius)) > 1e-8 * (size + far):
                    bad("circumcircle", "the circle does not pass through every vertex", ["definition"])
                elif abs(float(np.dot(nrm, np.asarray(C.centroid, dtype=float) - v3[0]))) > 1e-8 * (size + far):
                    bad("circumcircle", "the centre of the circle lies off the polygon's plane", ["definition", "centre_off_plane"])
        except RuntimeError:
            if B["cyclic"]:
                bad("circumcircle", "RuntimeError although the vertices are concyclic", ["exists_but_raised"])
        except Exception as e:
            bad("circumcircle", f"raised {type(e).__name__}: {e}", ["raised"])
        # incircle a posteriori: tangent to every edge line from inside, centre in the plane
        V = np.asarray(P.vertices, dtype=float)
        e = np.roll(V, -1, axis=0) - V
        outn = np.cross(e, np.asarray(P.normal))
        outn /= np.linalg.norm(outn, axis=1)[:, None]
        if P.signed_area < 0:
            outn = -outn
        try:
            C = P.incircle
            c = np.asarray(C.centroid, dtype=float)
            dist = np.sum(outn * (V - c), axis=1)
            offplane = abs(float(np.dot(np.asarray(P.normal, dtype=float), c - V[0])))
            if offplane > 1e-8 * (size + far):
                bad("incircle", f"the centre of the returned circle lies {offplane!r} off the polygon's plane", ["definition", "centre_off_plane"])
            elif not (C.radius > 0 and np.max(np.abs(dist - C.radius)) <= 1e-8 * (size + far)):
                bad("incircle", f"returned circle (r = {float(C.radius)!r}) is not tangent to every edge from inside "
                    f"(distances {dist.min()!r}..{dist.max()!r})", ["definition"])
        except RuntimeError:
            a = np.vstack([np.hstack([outn, np.ones((len(V), 1))]), np.append(np.asarray(P.normal), 0)])
            b = np.concatenate([np.sum(outn * V, axis=1), [np.dot(P.normal, V[0])]])
            x = np.linalg.lstsq(a, b, rcond=None)[0]
            if rec["convex"] and np.max(np.abs(a @ x - b)) < 1e-11 * (size + far) and x[3] > 0:
                bad("incircle", "RuntimeError although a circle tangent to all edges exists", ["exists_but_raised"])
        except Exception as e:
            bad("incircle", f"raised {type(e).__name__}: {e}", ["raised"])
        if cls == "ConvexPolygon":
            try:
                C = P.minimal_centered_bounding_circle
                want = s * math.sqrt(B["far2"]) / B["den"]
                if abs(C.radius - want) > 1e-9 * want + 1e-14 * far or np.max(np.abs(np.asarray(C.centroid) - cen)) > 1e-9 * (size + far):
                    bad("minimal_centered_bounding_circle", f"r = {float(C.radius)!r}, exact {want!r}; centre must be the centroid")
                C = P.maximal_centered_bounded_circle
                want = s * float(ev(B["inner"]))
                if abs(C.radius - want) > 1e-9 * want + 1e-14 * far or np.max(np.abs(np.asarray(C.centroid) - cen)) > 1e-9 * (size + far):
                    bad("maximal_centered_bounded_circle", f"r = {float(C.radius)!r}, exact {want!r}; centre must be the centroid")
            except Exception as e:
                bad("centered_circles", f"raised {type(e).__name__}: {e}", ["raised"])
    return out, {}


def eval_curved(rec):
    import numpy as np
    from . import curved_eval
    out = []
    cls = rec["cls"]
    tags = curved_eval.curved_tags(rec)

    def bad(obs, msg):
        out.append(({"cls": cls, "obs": obs, "tags": tags, "msg": msg}, {"case": rec, "obs": obs}))
    try:
        P, env, ax, c = curved_eval.build(rec)
    except Exception as e:
        bad("construct", str(e))
        return out, {}
    big, small = float(ev(rec["ballmax"], env)), float(ev(rec["ballmin"], env))
    suffix = "circle" if cls in ("Circle", "Ellipse") else "sphere"
    for name, want in ((f"minimal_bounding_{suffix}", big), (f"minimal_centered_bounding_{suffix}", big),
                       (f"maximal_bounded_{suffix}", small), (f"maximal_centered_bounded_{suffix}", small)):
        try:
            B = getattr(P, name)
            if abs(float(B.radius) - want) > 1e-12 * want or not np.allclose(np.asarray(B.centroid, dtype=float), c, rtol=0, atol=1e-12 * (1 + max(abs(x) for x in c))):
                bad(name, f"r = {float(B.radius)!r}, centre {np.asarray(B.centroid).tolist()}; definition: r = {want!r}, centre {c}")
            if abs(float(getattr(P, name + "_radius")) - want) > 1e-12 * want:
                bad(name + "_radius", "radius getter differs")
        except Exception as e:
            bad(name, f"raised {type(e).__name__}: {e}")
    return out, {}
