"""Running TLC on a module of /verif/spec and collecting its verdict, counts and emitted records."""
import json
import os
import re
import shutil
import subprocess
import tempfile
from concurrent.futures import ThreadPoolExecutor

from .common import NCPU, SEED, SPEC, TLA_CP, MachineryError, scratch

_RE_COUNTS = re.compile(r"(\d+) states generated, (\d+) distinct states found, (\d+) states left on queue")
_RE_SIMCOUNT = re.compile(r"The number of states generated: (\d+)")


class TLCResult:
    def __init__(self):
        self.ok = False
        self.generated = 0
        self.distinct = 0
        self.left = 0
        self.records = []      # emitted JSON records (decoded)
        self.violated = None   # name of violated invariant / property
        self.error = None      # other error text
        self.stdout = ""
        self.wall = 0.0
        self.cmd = ""
        self.coverage = {}


def _decode_emits(out):
    recs = []
    for line in out.splitlines():
        if line.startswith('"{') or line.startswith('"['):
            try:
                recs.append(json.loads(json.loads(line)))
            except Exception as e:  # pragma: no cover
                raise MachineryError(f"undecodable emission line: {line[:200]} ({e})")
    return recs


def run(module, cfg_text, constants=None, workers=None, timeout=600, simulate=None,
        depth=None, extra=None, env=None, cfgname=None):
    """Run TLC on spec/<module>.tla with a cfg built from cfg_text (+ literal constants).

    constants: dict name -> TLA+ literal text, emitted as 'NAME = literal' when the literal is a plain
    cfg value, otherwise through the module's own definitions (caller's job).
    """
    import time
    t0 = time.time()
    work = tempfile.mkdtemp(prefix="tlc.", dir=scratch())
    cfg = cfg_text
    if constants:
        cfg += "\nCONSTANTS\n" + "\n".join(f"  {k} = {v}" for k, v in constants.items()) + "\n"
    cfgpath = os.path.join(work, (cfgname or module) + ".cfg")
    with open(cfgpath, "w") as f:
        f.write(cfg)
    w = workers or NCPU
    cmd = ["java", "-XX:+UseParallelGC", "-Xmx8g", "-Xss256m", "-cp", TLA_CP, "tlc2.TLC",
           "-metadir", os.path.join(work, "meta"), "-noGenerateSpecTE",
           "-config", cfgpath]
    if simulate:
        cmd += ["-simulate", f"num={simulate}", "-depth", str(depth or 20), "-seed", str(SEED + 1)]
        cmd += ["-workers", str(w)]
    else:
        cmd += ["-workers", str(w)]
    if extra:
        cmd += list(extra)
    cmd += [os.path.join(SPEC, module + ".tla")]
    e = dict(os.environ)
    if env:
        e.update(env)
    res = TLCResult()
    res.cmd = " ".join(cmd)
    try:
        p = subprocess.run(cmd, cwd=SPEC, capture_output=True, text=True, timeout=timeout, env=e)
    except subprocess.TimeoutExpired:
        shutil.rmtree(work, True)
        raise MachineryError(f"TLC timed out after {timeout}s on {module}")
    out = p.stdout + p.stderr
    res.stdout = out
    res.wall = round(time.time() - t0, 2)
    m = None
    for m in _RE_COUNTS.finditer(out):
        pass
    if m:
        res.generated, res.distinct, res.left = int(m.group(1)), int(m.group(2)), int(m.group(3))
    else:
        m2 = _RE_SIMCOUNT.search(out)
        if m2:
            res.generated = res.distinct = int(m2.group(1))
    mv = re.search(r"Invariant (\S+) is violated", out)
    if mv:
        res.violated = mv.group(1)
    mv = re.search(r"Action property (\S+) is violated", out)
    if mv:
        res.violated = mv.group(1)
    if "Temporal properties were violated" in out:
        res.violated = res.violated or "temporal"
    mv = re.search(r"The postcondition (\S+)? ?.*(violated|false)", out)
    if mv:
        res.violated = res.violated or "postcondition"
    if res.violated is None and ("Error:" in out or p.returncode not in (0,)):
        # keep a short digest of the error
        idx = out.find("Error:")
        res.error = out[idx: idx + 1500] if idx >= 0 else f"tlc exit {p.returncode}: {out[-1500:]}"
    res.ok = res.violated is None and res.error is None
    res.records = _decode_emits(out)
    shutil.rmtree(work, True)
    return res


def run_sharded(module, cfg_text, nshards, shard_const="Shard", nshards_const="NShards", constants=None,
                timeout=900, **kw):
    """Run nshards single-worker TLC processes, each emitting only the states of its shard."""
    def one(k):
        c = dict(constants or {})
        c[shard_const] = str(k)
        c[nshards_const] = str(nshards)
        return run(module, cfg_text, constants=c, workers=1, timeout=timeout, **kw)
    with ThreadPoolExecutor(max_workers=min(nshards, NCPU)) as ex:
        return list(ex.map(one, range(nshards)))


def must_ok(res, what):
    if res.error:
        raise MachineryError(f"TLC error in {what}: {res.error[:800]}")
    return res
