"""C05 - 3-D point containment equals exact membership."""
from .. import convex_driver as cd
from .. import curved_eval
from .. import voxel_eval as ve

RULE = ("(a) every voxel solid of spec/Voxel3.tla x every half-lattice point of the enlarged box (membership = cell "
        "occupancy, T1: the coded 3-D winding number with lexicographic tie-breaking decides the same) replayed into "
        "Polyhedron.is_inside; (b) every convex lattice polytope of spec/Convex3.tla x every lattice point of the "
        "enlarged bounding box (membership = all facet half-spaces) replayed into ConvexPolyhedron, a Polyhedron copy "
        "and ConvexSpheropolyhedron(radius 0); (c) Sphere/Ellipsoid parameter states of spec/Curved.tla x a grid in "
        "semi-axis units (membership = quadratic form term); batch (N,3) and single (3,) calls, rational placements; "
        "boundary points are UNCLEAR and never asserted")


def run(ctx):
    from concurrent.futures import ThreadPoolExecutor
    quick = ctx.tier == "quick"
    with ThreadPoolExecutor(max_workers=6) as ex:      # the TLC instances are independent: run them side by side
        f_t1 = ex.submit(ve.t1, ctx, (3, 3, 2), 3 if quick else 5)
        f_vox = ex.submit(ve.emit, ctx, (3, 3, 2), 5 if quick else 6)
        f_vox2 = None if quick else ex.submit(ve.emit, ctx, (3, 3, 3), 12, 8, 40, 12)
        f_c1 = ex.submit(cd.emit, ctx, "U12", 5 if quick else 7, points=True)
        f_c2 = ex.submit(cd.emit, ctx, "E21", 14, simulate=3 if quick else 40, depth=11, minpts=7, points=True)
        f_c3 = ex.submit(cd.emit, ctx, "Spike", 5, minpts=5, points=True)
        f_c4 = ex.submit(cd.emit, ctx, "SkewSpike", 4, minpts=4, points=True)
        f_t1.result()
        recs = f_vox.result() + (f_vox2.result() if f_vox2 else [])
        spikes = f_c3.result() + f_c4.result()
        crecs = f_c1.result() + f_c2.result() + spikes
    if quick:      # all solids are model-checked; a seeded sample (all 5-cell non-box shapes first) is replayed
        import random
        rnd = random.Random(ctx.seed)
        rnd.shuffle(recs)
        recs.sort(key=lambda r: -r["vol"])
        recs = recs[:300]
    ve.replay(ctx, ve.build_cases(recs, ["inside"], ctx.tier, ctx.seed, 1 if quick else 5))
    ccases = cd.build_cases(crecs, ["inside"], ctx.tier, ctx.seed, 1 if quick else 5, n_perms=0)
    # the origin between the centroid and the farthest vertex (pre-filters must measure distances from the right point), and
    # the origin at the centroid and at a vertex
    from fractions import Fraction as F
    from ..placement import Placement
    for r in (crecs if not quick else spikes + crecs[::7]):
        c = [F(x, 4 * r["vol6"]) for x in r["cen24"]]
        far = max(r["v"], key=lambda v: sum((F(v[i]) - c[i]) ** 2 for i in range(3)))
        for name, t in (("origin_between_centroid_and_far_vertex", [-(c[i] + far[i]) / 2 for i in range(3)]),
                        ("origin_at_centroid", [-c[i] for i in range(3)]), ("origin_at_far_vertex", [-F(far[i]) for i in range(3)])):
            ccases.append({"rec": r, "pl": Placement(t=tuple(t), name=name).to_json(), "perm": None, "which": ["inside"]})
    cd.replay(ctx, ccases)
    curved_eval.run_inside3d(ctx)
    from .. import sphero_eval
    sphero_eval.run_inside(ctx)
    ctx.exhaustive = False
    ctx.extra["voxel_solids"] = len(recs)
    ctx.extra["convex_solids"] = len(crecs)
    return ctx.finish(rule=RULE, assumptions=[
        "points exactly on the boundary (or within 1e-6 of the level set for curved shapes) are excluded"])


def replay(rec):
    cls = rec["signature"]["cls"]
    if cls in ("Sphere", "Ellipsoid"):
        return curved_eval.replay_inside(rec)
    if "d2" in rec["detail"].get("case", {}).get("rec", {}):
        from .. import sphero_eval
        from ..pool import _init
        _init()
        return [f"{s['cls']}.{s['obs']}: {s['msg']}" for s, _ in sphero_eval.eval_round_inside(rec["detail"]["case"])[0]]
    if rec["detail"].get("case", {}).get("rec", {}).get("k") == "spherobox":
        from .. import sphero_eval
        from ..pool import _init
        _init()
        return [f"{s['cls']}.{s['obs']}: {s['msg']}" for s, _ in sphero_eval.eval_box_inside(rec["detail"]["case"])[0]]
    if "cells" in rec["detail"].get("case", {}).get("rec", {}):
        return ve.replay_record(rec)
    return cd.replay_record(rec)
