"""C19 - GSD, repr and HOOMD representations round-trip the shape."""
from .. import roundtrip_eval as rt

RULE = ("TLC enumerates spec/Gsd.tla exhaustively: every row of the from_gsd_type_shapes dispatch table (type string incl. "
        "missing/unknown/wrongly capitalised x dimensions x rounding radius present x convex or non-convex cycle) with the "
        "class or ValueError it must produce, and for every class the round-trip actions (GSD keys and type, class that must "
        "come back, what GSD loses, documented to_hoomd keys); each row and action is executed on off-origin base shapes of all "
        "ten classes: from_gsd_type_shapes(gsd_shape_spec), eval(repr(shape)), to_json subsets incl. unknown attribute, "
        "to_hoomd compared with an independently centred copy of the shape; distinct = table row / (class, base)")


def run(ctx):
    rt.run(ctx)
    return ctx.finish(rule=RULE, assumptions=["GSD does not carry the centre of curved shapes nor the normal of planar ones "
                                               "(stated in Gsd.tla as GsdLoses); comparisons after the GSD round trip exclude them"])


def replay(rec):
    from ..pool import _init
    _init()
    d = rec["detail"]
    res = rt.eval_row(d["row"]) if "row" in d else rt.eval_roundtrip(d["job"])
    return [f"{s['cls']}.{s['obs']}: {s['msg']}" for s, _ in res]
