"""C14 - distance_to_surface is the radial distance from the centre to the boundary."""
import json
from concurrent.futures import ThreadPoolExecutor
from fractions import Fraction as F

from .. import curved_eval
from .. import polygon_driver as pd
from .. import radial_eval as re_
from ..placement import Placement
from ..polygon_driver import h
from ..pool import pmap

RULE = ("for every convex polygon state of spec/Polygon2.tla (both orientations, every start vertex) TLC computes the exact "
        "parameter t of the ray from the exact centroid along integer directions (towards every vertex, along the axes and "
        "diagonals, generic) through the unique exit edge; replayed into ConvexPolygon.distance_to_surface with theta = "
        "atan2(u) + 2 pi k, k = -2..2, under in-plane rational rotations, offsets and scales; ConvexSpheropolygon is judged by "
        "the defining identity (the returned point lies at distance r from the exact core polygon) for radii 0..10 core sizes; "
        "Circle / Ellipse by the radial term of spec/Curved.tla; distinct = (shape, placement)")

INPLANE = [Placement(name="identity"), Placement(t=(30, -20, 0), name="offset"),
           Placement(q=(2, 0, 0, 1), t=(F(1, 2), -3, 0), name="rotz_53deg"),          # rotation about z by atan2(4,3)
           Placement(s=F(1, 1000), q=(3, 0, 0, -1), t=(F(1, 100), F(1, 50), 0), name="milli_rotz"),
           Placement(s=1000, q=(1, 0, 0, 1), name="kilo_rotz90"),
           # edges that lean 4e-6 rad from the axes (slope tests must not be approximate) and a nanometre-sized shape
           # (absolute tolerances must not matter)
           Placement(q=(500000, 0, 0, 1), t=(F(1, 3), F(2, 7), 0), name="tilt_4e-6_rad"),
           Placement(s=F(1, 10 ** 9), q=(2, 0, 0, 1), t=(F(3, 10 ** 9), F(-2, 10 ** 9), 0), name="nano_rotz_53deg")]
RADII = [[0, 1], [1, 100], [1, 3], [2, 1], [10, 1]]


def run(ctx):
    quick = ctx.tier == "quick"
    with ThreadPoolExecutor(max_workers=2) as ex:
        f1 = ex.submit(pd.emit_polygons, ctx, 2, 5 if quick else 6, True, None, None, False, True)
        f2 = ex.submit(curved_eval.emit, ctx, ctx.tier)
        precs = [r for r in f1.result() if r["convex"]]
        cres = f2.result()
    ctx.tlc(cres, "Curved emission for radial distance")
    if quick:
        precs = precs[::2]
    cases = []
    for r in precs:
        k = h(r["v"], ctx.seed)
        for pl in ([INPLANE[0], INPLANE[1 + k % (len(INPLANE) - 1)]] if quick else INPLANE):
            cases.append({"rec": r, "pl": pl.to_json(), "radii": RADII if not quick else [RADII[0], RADII[1 + k % 4]]})
    for case, (mism, _) in zip(cases, pmap(re_.eval_polygon, cases)):
        ctx.case((json.dumps(case["rec"]["v"]), json.dumps(case["pl"])), nontrivial=True,
                 sample={"polygon": case["rec"]["v"], "placement": case["pl"], "exact_hits": case["rec"]["radial"][:3]})
        ctx.traces += 1
        for sig, detail in mism:
            ctx.violation(sig, detail)
    seen = {}
    for r in cres.records:
        if r["cls"] in ("Circle", "Ellipse"):
            seen.setdefault((r["cls"], str(r["axraw"]), str(r["env"])), r)
    cur = list(seen.values())
    for r, (mism, _) in zip(cur, pmap(re_.eval_curved, cur)):
        ctx.case(("curved", r["cls"], json.dumps(r["axraw"]), json.dumps(r["env"][-4:])))
        ctx.traces += 1
        for sig, detail in mism:
            ctx.violation(sig, detail)
    ctx.exhaustive = False
    return ctx.finish(rule=RULE, assumptions=["directions are rational (dense, not exhaustive); shapes lie in the xy-plane as the property states"])


def replay(rec):
    from ..pool import _init
    _init()
    case = rec["detail"]["case"]
    res = re_.eval_curved(case)[0] if "axraw" in case else re_.eval_polygon(case)[0]
    return [f"{s['cls']}.{s['obs']}: {s['msg']}" for s, _ in res]
