"""C20 - Exported mesh files describe exactly the polyhedron."""
from concurrent.futures import ThreadPoolExecutor

from .. import convex_driver as cd
from .. import mesh_eval
from .. import voxel_eval as ve

RULE = ("polyhedra from spec/Convex3.tla (mixed face degrees) as ConvexPolyhedron and as Polyhedron, and voxel solids from "
        "spec/Voxel3.tla, under placements incl. scales 1e-6..1e6 (exponent notation) and both signs, are written with "
        "coxeter.io.to_* and Polyhedron.save for OBJ, OFF, PLY, VTK, STL, X3D, HTML; each file is tokenised without format "
        "knowledge (float tokens replaced by the id of the bit-identical vertex coordinate) and read back by the reader "
        "machine of its format in spec/MeshFormats.tla under TLC, which accepts iff the vertex table (full double precision), "
        "the face cycles with orientation (STL: per-face tiling by outward triangles) and all declared counts are "
        "reconstructed; corrupted canary traces must be rejected; distinct = (shape, placement, format, entry point)")


def run(ctx):
    quick = ctx.tier == "quick"
    with ThreadPoolExecutor(max_workers=3) as ex:
        f1 = ex.submit(cd.emit, ctx, "U12", 6 if quick else 7)
        f2 = ex.submit(cd.emit, ctx, "S9", 30, simulate=1 if quick else 10, depth=27, minpts=12)
        f3 = ex.submit(ve.emit, ctx, (3, 3, 2), 4 if quick else 5)
        # eight cells in a 3 x 3 x 1 box: contains the square ring (genus 1: V - E + F = 0), whose counts no formula for spheres gives
        f4 = ex.submit(ve.emit, ctx, (3, 3, 1), 8, 8)
        crecs = f1.result() + f2.result()
        vrecs = f3.result()
        rings = [r for r in f4.result() if [1, 1, 0] not in [list(c) for c in r["cells"]]]
    # T1: the readers accept the transcribed writers on a small universe of index meshes, and reject wrong writers
    from .. import tlc
    res = tlc.run("MeshWriters", "SPECIFICATION WSpec\nINVARIANT T1_ReadersAcceptWriters\nINVARIANT T1_WrongWritersRejected\n"
                  "CHECK_DEADLOCK FALSE\n", workers=2, timeout=300)
    ctx.tlc(res, "MeshWriters T1: Read(Write(mesh)) = mesh for the transcribed writers; wrong writers rejected")
    if res.violated:
        ctx.violation({"cls": "spec", "obs": res.violated, "tags": ["T1"], "msg": f"{res.violated} fails in MeshWriters.tla"},
                      {"tlc": res.stdout[-2000:]})
    mesh_eval.run(ctx, crecs, vrecs, must=rings)
    ctx.exhaustive = False
    return ctx.finish(rule=RULE, assumptions=[
        "the reader machines are written from the format definitions as known to the author (no independent parser library "
        "is installed)", "only geometry-bearing elements of X3D/HTML are specified (no viewer semantics)"])


def replay(rec):
    from ..pool import _init
    _init()
    import json, os, tempfile
    from ..runner import Ctx
    job = rec["detail"]["job"]
    tr = mesh_eval.record(dict(job, tid=0))
    if "error" in tr:
        return [tr["error"]]
    c = Ctx("C20", "quick")
    rej = mesh_eval.validate(c, [tr], "replay")
    return [f"{job['fmt']}: clause {r['why']}" for r in rej]
