"""C18 - Every tabulated family entry is the solid its name says."""
from .. import tabulated_eval as te

RULE = ("spec/Tabulated.tla holds the textbook (V,E,F) of the 5 Platonic, 13 Archimedean and 13 Catalan solids (Catalan = dual: V "
        "and F exchanged; Euler's formula and distinctness checked by TLC), the family sizes 5/13/13/92/16/6/145 and the loader "
        "protocol of DOI_SHAPE_REPOSITORIES as a state machine (lookup loads on first use, returns the same object afterwards, "
        "unknown DOI -> KeyError and nothing loaded) explored to a bounded depth with LoaderMonotone and Idempotent; every entry "
        "of every family and of the science.1220869 repository is built and compared with the table, iteration order and "
        "identity with get_shape (also after the caller modified a previously yielded shape), unknown names, cross-references "
        "to the named families, and the metric predicates (unit volume, equal edges, regular faces, insphere) on the "
        "implementation's vertices; exhaustive over all 290 entries; the Get/Mutate histories of spec/Factory.tla are replayed "
        "against get_shape of every tabulated family and the repository")


def run(ctx):
    te.run(ctx)
    from .. import factory_eval
    TAB = ["PlatonicFamily", "ArchimedeanFamily", "CatalanFamily", "JohnsonFamily", "PrismAntiprismFamily", "PyramidDipyramidFamily",
           "DOI science.1220869"]
    ctx.extra["factory_histories_replayed"] = factory_eval.run(ctx, TAB)
    return ctx.finish(rule=RULE, assumptions=[
        "metric predicates are float relations (tabulated coordinates are irrational); Johnson solids are checked for regular "
        "faces / equal edges / distinct names, not against per-solid textbook counts"])


def replay(rec):
    if "job" in rec.get("detail", {}):
        from .. import factory_eval
        return [f"{s['cls']}.{s['obs']}: {s['msg']}" for s, _ in factory_eval.eval_history(rec["detail"]["job"])]
    return ["entries are enumerated exhaustively: rerun ./check C18"]
