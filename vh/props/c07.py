"""C07 - Face, normal, neighbour and edge structure of polyhedra is consistent."""
from .. import convex_driver as cd

RULE = ("(T2) every state of spec/Convex3.tla is replayed into ConvexPolyhedron under rational placements and vertex "
        "permutations and faces (as vertex sets and as counter-clockwise cycles up to rotation), unit outward plane "
        "equations, neighbour lists, the sorted edge list, num_edges and the simplices are compared with the spec's "
        "facets/edges; (T3) discrete structure recorded from ConvexPolyhedron and from Polyhedron.sort_faces / "
        "merge_faces on scrambled inputs is validated by TLC against spec/TraceStructure.tla; distinct = (vertex "
        "set, placement, permutation / scramble)")


def run(ctx):
    quick = ctx.tier == "quick"
    cd.t1(ctx, "U12", 5 if quick else 7)
    recs = cd.emit(ctx, "U12", 6 if quick else 8)
    if quick:
        recs += cd.emit(ctx, "S9", 30, simulate=1, depth=27, minpts=9)
    else:
        recs += cd.emit(ctx, "S9", 30, simulate=30, depth=27, minpts=9)
        recs += cd.emit(ctx, "S14", 40, simulate=10, depth=37, minpts=12)
        recs += cd.emit(ctx, "E21", 20, simulate=50, depth=17, minpts=8)
    ctx.exhaustive = False
    cases = cd.build_cases(recs, ["structure"], ctx.tier, ctx.seed, 1 if quick else 6, n_perms=1 if quick else 2)
    cd.replay(ctx, cases)
    try:
        from .. import structure_trace
        structure_trace.run(ctx, recs)
    except ImportError:
        ctx.notes.append("T3 trace validation of sort_faces/merge_faces not built yet")
    ctx.extra["solids"] = len(recs)
    return ctx.finish(rule=RULE, assumptions=[
        "inputs are lattice point sets in convex position under rational similarity placements"])


replay = cd.replay_record
