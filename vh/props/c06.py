"""C06 - 2-D point containment equals exact membership (polygon part; curved shapes are added in curved_eval)."""
from .. import polygon_driver as pd

RULE = ("every state of spec/Polygon2.tla (simple lattice polygons, both orientations, every start vertex) x every "
        "point of the half-lattice of the enlarged bounding box; expected membership = crossing parity computed by "
        "TLC in integers (points on the boundary are classified UNCLEAR and never asserted); replayed into "
        "Polygon.is_inside / ConvexPolygon.is_inside as one (N,3) batch, single (3,) calls and (N,2) input, under "
        "rational placements; distinct = (vertex cycle, normal variant, class, placement)")


def run(ctx):
    quick = ctx.tier == "quick"
    pd.t1(ctx, 2, 5 if quick else 6)
    recs = pd.emit_polygons(ctx, 2, 5 if quick else 6)
    if not quick and len(recs) > 3000:
        # the exhaustive family with every relabelling has 1.5e5 members: all of them are model-checked (T1); a seeded sample of
        # 3000 is replayed under six placements (the full replay took more than eight CPU hours)
        import random
        recs = random.Random(ctx.seed + 4).sample(recs, 3000)
    # named polygons with many reflex corners (combs, saw, spiral, zig-zag, star; 6-16 vertices), every relabelling
    pd.t1_named(ctx, "NamedSmall" if quick else "Named")
    named = pd.emit_named(ctx, "NamedSmall" if quick else "Named")
    recs += named[::5] if quick else named
    if not quick:
        recs += pd.emit_polygons(ctx, 3, 7, relabel=True, simulate=400, depth=12)[::8]
    ctx.exhaustive = False
    cases = pd.build_cases(recs, "inside", ctx.tier, ctx.seed, 2 if quick else 6)
    pd.replay(ctx, cases)
    from .. import curved_eval
    curved_eval.run_inside2d(ctx)
    ctx.extra["polygons"] = len(recs)
    return ctx.finish(rule=RULE, assumptions=[
        "query points exactly on the boundary are excluded (the property excludes a margin around the boundary)",
        "inputs are lattice polygons / half-lattice points under rational similarity placements"])


def replay(rec):
    if rec["signature"]["cls"] in ("Circle", "Ellipse"):
        from .. import curved_eval
        return curved_eval.replay_inside(rec)
    return pd.replay_record(rec)
