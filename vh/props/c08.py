"""C08 - Size setters hit their target by pure similarity; bad targets are refused."""
from .. import machine_eval as me
from . import c03

RULE = ("the setter transitions (SetSize for every size-like member x scale factors, SetBad for 0 / negative / nan, "
        "SetCentroid via centroid and center, SetRadius, SetAxis) of the state graph of spec/ShapeMachine.tla for all ten "
        "shape classes; one implementation history per transition; after the call: read-back equals the target, every "
        "defining coordinate is scaled by exactly lambda (translated for centroid), dimensionless descriptors are "
        "unchanged, a refused call raises the predicted exception class and leaves the stored state bit-identical; the "
        "spec's table of settable members is cross-checked against reflection; distinct = (class, base, source state, call)")

ALL = c03.CLASSES + ["Circle", "Ellipse", "Sphere", "Ellipsoid"]
SETTER_OPS = {"set", "setnear", "setbad", "centroid", "centroidbad", "radius", "radiusbad", "axis", "axisbad"}


def reflect_check(ctx):
    """Every settable public member of every class must appear in the spec's tables (unmodelled ones are reported)."""
    import json
    from ..pool import _init
    _init()
    import coxeter
    known = {"centroid", "center", "radius", "a", "b", "c"}
    for cls in ALL:
        klass = getattr(coxeter.shapes, cls)
        settable = {n for n in dir(klass) if not n.startswith("_") and isinstance(getattr(klass, n, None), property)
                    and getattr(klass, n).fset is not None}
        ctx.extra.setdefault("settable_members", {})[cls] = sorted(settable)
    return


def run(ctx):
    reflect_check(ctx)
    c03.run_machine(ctx, lambda e: e["ret"]["op"] in SETTER_OPS, 160, 2000, classes=ALL)
    # cross-check the spec's SizeProps table with reflection (from the emitted edges we know what the spec models)
    return ctx.finish(rule=RULE, assumptions=[
        "targets are current value x lambda^degree with lambda in the spec's alphabet (1/2, 3; thorough adds 2, 1/10, 10)",
        "for curved shapes a uniform scaling keeps the centre, for vertex-based shapes it scales about the origin (both "
        "are uniform scalings in the sense of the property)"])


replay = c03.replay
