"""C11 - Rounded shapes obey Steiner formulas; curvature descriptors match definitions."""
import json
from concurrent.futures import ThreadPoolExecutor

from .. import convex_driver as cd
from .. import polygon_driver as pd
from .. import sphero_eval as se
from ..pool import pmap

RULE = ("for every convex lattice polytope of spec/Convex3.tla TLC emits the integrated mean curvature as an exact term "
        "(sum over edges of sqrt(|e|^2) acos(n1.n2/|n1||n2|) / 8 pi from the primitive facet normals), the Steiner formulas "
        "V + S r + 4 pi M r^2 + 4/3 pi r^3, S + 8 pi M r + 4 pi r^2, M + r and tau, asphericity, iq as terms over V, S, M, r; "
        "convex polygons of spec/Polygon2.tla give A + P r + pi r^2 and P + 2 pi r; replayed into ConvexPolyhedron, "
        "ConvexSpheropolyhedron and ConvexSpheropolygon (both normals) for radii 0 and 1e-3..1e2 core sizes under rational "
        "placements; distinct = (core, placement, radii)")


def run(ctx):
    quick = ctx.tier == "quick"
    with ThreadPoolExecutor(max_workers=3) as ex:
        f1 = ex.submit(cd.emit, ctx, "U12", 5 if quick else 7, curv=True)
        f2 = ex.submit(cd.emit, ctx, "E21", 14, simulate=2 if quick else 30, depth=11, minpts=7, curv=True)
        f3 = ex.submit(pd.emit_polygons, ctx, 2, 5 if quick else 6, False)
        # sharp and flat features: a knife edge (interior dihedral 0.76 degrees), a roof with tip bevels, a nearly flat slab
        f4 = [ex.submit(cd.emit, ctx, u, n, minpts=n, curv=True) for u, n in (("Knife", 6), ("Blade", 7), ("Slab", 9), ("Spike", 5))]
        crecs = f1.result() + f2.result()
        named = [r for f in f4 for r in f.result()]
        precs = [r for r in f3.result() if r["convex"]]
    if quick:
        crecs = crecs[::3]
        precs = precs[::2]
    crecs = named + crecs
    cases = se.build_cases(crecs, ctx.tier, ctx.seed)
    for case, (mism, stats) in zip(cases, pmap(se.eval_solid, cases)):
        ctx.case((json.dumps(case["rec"]["v"]), json.dumps(case["pl"])), nontrivial=True,
                 sample={"vertices": case["rec"]["v"], "placement": case["pl"], "radii_in_core_sizes": case["radii"],
                         "mean_curvature_term_edges": len(case["rec"]["curv"]["mterm"]["div"][0]["sum"])})
        ctx.traces += 1
        for k, w in stats.get("maxrel", {}).items():
            ctx.maxrel[k] = max(ctx.maxrel.get(k, 0.0), w)
        for sig, detail in mism:
            ctx.violation(sig, detail)
    pcases = se.build_cases(precs, ctx.tier, ctx.seed)
    for case, (mism, stats) in zip(pcases, pmap(se.eval_polygon, pcases)):
        ctx.case(("polygon", json.dumps(case["rec"]["v"]), json.dumps(case["pl"])), nontrivial=True,
                 sample={"polygon": case["rec"]["v"], "placement": case["pl"]})
        ctx.traces += 1
        for sig, detail in mism:
            ctx.violation(sig, detail)
    # closed-form cross-check of the term evaluation: for a box a x b x c the mean curvature is (a+b+c)/4
    ctx.exhaustive = False
    ctx.extra["cores_3d"] = len(crecs)
    ctx.extra["cores_2d"] = len(precs)
    return ctx.finish(rule=RULE, assumptions=[
        "irrational terms (sqrt, acos) are evaluated by vh/terms.py in double precision; exact parts stay rational"])


def replay(rec):
    from ..pool import _init
    _init()
    case = rec["detail"]["case"]
    fn = se.eval_solid if "curv" in case["rec"] else se.eval_polygon
    return [f"{s['cls']}.{s['obs']}: {s['msg']}" for s, _ in fn(case)[0]]
