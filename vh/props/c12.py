"""C12 - Form factor amplitude is the Fourier transform of the shape."""
import json
from concurrent.futures import ThreadPoolExecutor

from .. import convex_driver as cd
from .. import ff_eval as fe
from .. import polygon_driver as pd
from .. import voxel_eval as ve
from ..placement import palette
from ..polygon_driver import h
from ..pool import pmap

RULE = ("(a) voxel solids of spec/Voxel3.tla at q = (pi/2) m for a catalogue of integer m (zero, along axes = face normals, in "
        "face diagonals, generic; |m| up to 7): TLC computes F as a Gaussian integer times 2^nz / (pi^nz prod m) and checks "
        "F(0) = V and conjugate symmetry in the spec; (b) lattice polygons of spec/Polygon2.tla at q = pi m (generic m) by the "
        "simplex formula over the growth triangulation, both orientations and both normals, with an extra q component along "
        "the normal; (c) spheres with |q| R in (pi/2) Z along rational directions and, from spec/Curved.tla, at |q| R in {1e-3 .. 1} by "
        "the alternating series of (sin x - x cos x)/x^3; (d) |q| size in {1e-3, 1e-2} against the "
        "second-order Taylor value from the exact moments with a rigorous remainder bound; all under rational placements with "
        "the translation phase; plus F(-q) = conj F(q), density linearity, batch = single; distinct = (shape, placement)")


def cases(recs, key, ctx, extra=None):
    out = []
    for r in recs:
        pal = palette(4, ctx.tier)
        k = h(r[key], ctx.seed)
        for pl in ([pal[0], pal[1 + k % (len(pal) - 1)]] if ctx.tier == "quick" else pal):
            c = {"rec": r, "pl": pl.to_json()}
            if extra:
                for e in extra:
                    out.append(dict(c, **e))
            else:
                out.append(c)
    return out


def run(ctx):
    quick = ctx.tier == "quick"
    with ThreadPoolExecutor(max_workers=3) as ex:
        f1 = ex.submit(ve.emit, ctx, (3, 3, 2), 5 if quick else 6)
        f2 = ex.submit(pd.emit_polygons, ctx, 2, 5 if quick else 6, True, None, None, False, False, True)
        f3 = ex.submit(cd.emit, ctx, "U12", 5 if quick else 6)
        vrecs, precs, crecs = f1.result(), f2.result(), f3.result()
    if quick:
        vrecs = sorted(vrecs, key=lambda r: -r["vol"])[:150]
        precs = precs[::6]
        crecs = crecs[::8]
    groups = [("voxel", fe.eval_voxel, cases(vrecs, "cells", ctx)),
              ("small_q", fe.eval_small_q, cases(vrecs[:60] + crecs, "v", ctx)),
              ("polygon", fe.eval_polygon, cases(precs, "v", ctx, extra=[{"nz": 1}, {"nz": -1}]))]
    for label, fn, cs in groups:
        for case, (mism, st) in zip(cs, pmap(fn, cs)):
            ctx.case((label, json.dumps(case["rec"].get("cells", case["rec"]["v"])), json.dumps(case["pl"]), case.get("nz")),
                     nontrivial=True, sample={"kind": label, "shape": case["rec"].get("cells", case["rec"]["v"]),
                                              "placement": case["pl"],
                                              "exact": (case["rec"].get("ff") or [None])[1] if label != "small_q" else "Taylor"})
            ctx.traces += 1
            ctx.unclear += st.get("unclear", 0)
            for sig, detail in mism:
                ctx.violation(sig, detail)
    from ..pool import _init
    _init()
    for R in ([1, 1], [5, 2], [1, 1000], [250, 1]):
        for c in ([[0, 1]] * 3, [[3, 1], [-5, 2], [7, 3]]):
            case = {"R": R, "c": c}
            ctx.case(("sphere", json.dumps(case)))
            ctx.traces += 1
            for sig, detail in fe.eval_sphere(case)[0]:
                ctx.violation(sig, detail)
    # spheres of spec/Curved.tla (radii, centres, scales of the parameter machine) at small and moderate rational |q| R
    from .. import curved_eval
    cres = curved_eval.emit(ctx, ctx.tier, classes=["Sphere"])
    ctx.tlc(cres, "Curved emission (Sphere only) for the form-factor series")
    seen = {}
    for r in cres.records:
        if r["cls"] == "Sphere":
            seen.setdefault((str(r["axraw"]), str(r["env"])), r)
    for r, (mism, _) in zip(list(seen.values()), pmap(fe.eval_sphere_series, list(seen.values()))):
        ctx.case(("sphere_series", json.dumps(r["axraw"]), json.dumps(r["env"][-3:])))
        ctx.traces += 1
        for sig, detail in mism:
            ctx.violation(sig, detail)
    ctx.exhaustive = False
    return ctx.finish(rule=RULE, assumptions=[
        "generic real q is covered only by the relations and the small-q enclosure; exact values exist on the quarter-/half-"
        "period lattices and their images under the placements", "the translation phase exp(-i q.t) is evaluated in floating point"])


def replay(rec):
    from ..pool import _init
    _init()
    case = rec["detail"]["case"]
    if "R" in case:
        res = fe.eval_sphere(case)[0]
    elif "nz" in case:
        res = fe.eval_polygon(case)[0]
    elif rec["signature"]["tags"] and ("small_q" in rec["signature"]["tags"] or rec["signature"]["cls"] == "ConvexPolyhedron"):
        res = fe.eval_small_q(case)[0]
    else:
        res = fe.eval_voxel(case)[0] or fe.eval_small_q(case)[0]
    return [f"{s['cls']}.{s['obs']}: {s['msg']}" for s, _ in res]
