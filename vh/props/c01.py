"""C01 - Convex polyhedron volume, area, centroid and inertia tensor are exact."""
from .. import convex_driver as cd

RULE = ("TLC enumerates every full-dimensional subset (4..MaxPts points) of a universe of lattice points in strictly "
        "convex position (spec/Convex3.tla), computes facets by supporting planes and exact volume/centroid/second "
        "moments by cone decomposition (spec/Geom3.tla), and checks inside the spec that the coded curl-theorem "
        "centroid and 4-point quadrature (spec/AlgConvex.tla) equal them; every state is replayed into "
        "ConvexPolyhedron under rational placements and vertex permutations; distinct = (vertex set, placement, "
        "permutation); non-trivial = not a bare tetrahedron at the identity placement")


def run(ctx):
    quick = ctx.tier == "quick"
    cd.t1(ctx, "U12", 5 if quick else 7)
    recs = cd.emit(ctx, "U12", 6 if quick else 8)
    if not quick:
        cd.t1(ctx, "U12", 6, off="Far")
        recs += cd.emit(ctx, "S9", 30, simulate=60, depth=27, minpts=9)
        recs += cd.emit(ctx, "S14", 40, simulate=20, depth=37, minpts=12)
        recs += cd.emit(ctx, "E21", 20, simulate=100, depth=17, minpts=8)
        ctx.exhaustive = False
    else:
        recs += cd.emit(ctx, "S9", 30, simulate=1, depth=27, minpts=9)
        recs += cd.emit(ctx, "E21", 16, simulate=4, depth=13, minpts=8)
        ctx.exhaustive = False
    cases = cd.build_cases(recs, ["measures"], ctx.tier, ctx.seed, 2 if quick else 11, n_perms=1 if quick else 2)
    cd.replay(ctx, cases)
    ctx.extra["solids"] = len(recs)
    return ctx.finish(rule=RULE, assumptions=[
        "inputs are lattice point sets in convex position under rational similarity placements",
        "tolerances of DESIGN.md 4.3", "tabulated solids are covered by C18, not here"])


replay = cd.replay_record
