"""C15 - Constructors accept valid geometry and reject invalid geometry."""
import json
import random

from .. import convex_driver as cd
from .. import ctor_eval as ce
from ..placement import palette
from ..polygon_driver import h
from ..pool import pmap

RULE = ("TLC enumerates every vertex sequence (duplicates allowed) of length 3..L over a lattice (spec/Ctor2.tla) and "
        "classifies it exactly as clearly valid / clearly invalid / within the margin (touching, straight angles), for "
        "Polygon (simple cycle) and for the convex classes (every point a strict hull vertex; expected stored order = "
        "counter-clockwise from input vertex 0); each input is handed to Polygon, ConvexPolygon and ConvexSpheropolygon as "
        "(N,2) and (N,3) arrays with default and explicit normals under rational placements, plus off-plane variants; "
        "Convex3 states with an exact interior point / duplicate for the 3-D classes; parameter signs for curved shapes and "
        "rounding radii; every call also checks that the caller's arrays are neither modified nor stored; distinct = "
        "(input sequence, placement)")


def run(ctx):
    quick = ctx.tier == "quick"
    recs = ce.emit(ctx, 2, 5)
    if not quick:
        more = ce.emit(ctx, 3, 4)
        recs += more
    rnd = random.Random(ctx.seed)
    if quick:
        # all length-3 and length-4 sequences are classified by TLC; replay all valid/convex ones and a sample of the rest
        keep = [r for r in recs if r["pv"] == "valid" or r["cv"] == "valid"]
        cross = [dict(r, only_polygon=True) for r in recs if r["pv"] == "invalid" and r["cv"] != "valid"
                 and len({tuple(p) for p in r["v"]}) == len(r["v"])]
        rest = [r for r in recs if not (r["pv"] == "valid" or r["cv"] == "valid")]
        rnd.shuffle(rest)
        recs2 = keep + cross + rest[:1000]
    else:
        recs2 = recs
    cases = []
    for r in recs2:
        pal = palette(3, ctx.tier)
        k = h(r["v"], ctx.seed)
        for pl in ([pal[0]] if k % 3 else [pal[0], pal[1 + k % (len(pal) - 1)]]):
            cases.append({"rec": {k: v for k, v in r.items() if k != "only_polygon"}, "pl": pl.to_json(),
                          "only_polygon": bool(r.get("only_polygon"))})
    # long cycles: the named polygons with two entries exchanged (MC_Ctor2), in every cyclic shift and both directions (the verdict
    # does not depend on the labelling; what a sweep line does with it does)
    nrecs = ce.emit_named(ctx)
    ctx.extra["named_cycles_classified"] = {v: sum(1 for r in nrecs if r["pv"] == v) for v in ("valid", "invalid", "unclear")}
    for r in nrecs:
        if r["pv"] == "unclear":
            continue
        n = len(r["v"])
        k0 = h(r["v"], ctx.seed)
        shifts = range(n) if not quick else sorted({(k0 + 3 * j) % n for j in range(4)})
        for sft in shifts:
            for rev in (False, True):
                v = r["v"][sft:] + r["v"][:sft]
                if rev:
                    v = v[::-1]
                pal = palette(3, ctx.tier)
                pl = pal[0] if (k0 + sft + rev) % 3 else pal[1 + (k0 + sft) % (len(pal) - 1)]
                cases.append({"rec": dict(r, v=v, ccw=[]), "pl": pl.to_json(), "only_polygon": True})
    results = pmap(ce.eval_planar, cases)
    for case, (mism, stats) in zip(cases, results):
        ctx.case((json.dumps(case["rec"]["v"]), json.dumps(case["pl"])), nontrivial=len(case["rec"]["v"]) > 3,
                 sample={"input_sequence": case["rec"]["v"], "polygon_verdict": case["rec"]["pv"],
                         "convex_verdict": case["rec"]["cv"], "placement": case["pl"]})
        ctx.traces += 1
        ctx.unclear += stats.get("unclear", 0)
        for sig, detail in mism:
            ctx.violation(sig, detail)
    # 3-D classes
    crecs = cd.emit(ctx, "U12", 5 if quick else 7)
    if quick:
        rnd.shuffle(crecs)
        crecs = crecs[:300]
    ccases = []
    for r in crecs:
        pal = palette(7, ctx.tier)
        ccases.append({"rec": r, "pl": pal[h(r["v"], ctx.seed) % len(pal)].to_json()})
    for case, (mism, stats) in zip(ccases, pmap(ce.eval_solid, ccases)):
        ctx.case(("solid", json.dumps(case["rec"]["v"]), json.dumps(case["pl"])),
                 sample={"vertex_set": case["rec"]["v"], "placement": case["pl"]})
        ctx.traces += 1
        for sig, detail in mism:
            ctx.violation(sig, detail)
    # curved shapes and rounding radii
    vc = [{"vals": v} for v in ([1.0, 2.0, 3.0], [1e-3, 5e-4, 2e-3], [1e3, 1.0, 1e-3], [7.0, 7.0, 7.0])]
    from ..pool import _init
    _init()
    for case in vc:
        mism, _ = ce.eval_curved(case)
        ctx.case(("curved", json.dumps(case["vals"])))
        ctx.traces += 1
        for sig, detail in mism:
            ctx.violation(sig, detail)
    ctx.exhaustive = not quick
    ctx.extra["sequences_classified"] = len(recs)
    ctx.extra["verdict_counts"] = {f"{a}/{b}": sum(1 for r in recs if r["pv"] == a and r["cv"] == b)
                                   for a in ("valid", "invalid", "unclear") for b in ("valid", "invalid", "unclear")}
    return ctx.finish(rule=RULE, assumptions=[
        "inputs within the margin of the decision boundary (vertex touching an edge, straight angles, collinear sets) are "
        "counted as unclear and never asserted", "Bentley-Ottmann (_is_simple) is bound as a black box to Geom2.Simple"])


def replay(rec):
    from ..pool import _init
    _init()
    case = rec["detail"]["case"]
    fn = ce.eval_planar if "rec" in case and "pv" in case["rec"] else ce.eval_solid if "rec" in case else ce.eval_curved
    return [f"{s['cls']}.{s['obs']}: {s['msg']}" for s, _ in fn(case)[0]]
