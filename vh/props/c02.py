"""C02 - General (non-convex) polyhedron measures are exact."""
from .. import prism_eval
from .. import voxel_eval as ve

RULE = ("TLC enumerates every manifold face-connected voxel solid with <= MaxCells cells in a box (spec/Voxel3.tla; "
        "contains L, U, C, S shapes and, in the thorough tier, genus-1 frames), with exact volume = #cells, area = "
        "#exposed squares, centroid and second moments by summing unit cubes, and proves in the spec that the coded "
        "area*offset volume, Eberly centroid and signed Kallay inertia over the surface triangulation equal them; the "
        "boundary mesh of every solid is replayed into Polyhedron under rational placements and cyclic shifts of the "
        "face lists; spec/Prism3.tla adds extruded non-convex lattice polygons (named combs, saw, spiral, zig-zag, star and "
        "randomly grown ones) with caps cut into the triangles of the growth triangulation, exact measures by Fubini from the "
        "polygon's exact moments and the T1 theorem that the surface-triangle sums equal them; "
        "distinct = (cell set, placement, shift) / (prism, placement, shifts); non-trivial = not a single cube at the identity")


def run(ctx):
    quick = ctx.tier == "quick"
    ve.t1(ctx, (3, 3, 2), 3 if quick else 5)
    recs = ve.emit(ctx, (3, 3, 2), 5 if quick else 6)
    if not quick:
        recs += ve.emit(ctx, (3, 3, 3), 12, minemit=8, simulate=40, depth=12)
        ctx.exhaustive = False
    cases = ve.build_cases(recs, ["measures"], ctx.tier, ctx.seed, 1 if quick else 5)
    ve.replay(ctx, cases)
    ctx.extra["solids"] = len(recs)
    # extruded simple polygons with triangulated caps (spec/Prism3.tla): prisms over named combs / saw / spiral / zig-zag
    # polygons and over randomly grown lattice polygons; every face is convex, the solid is far from star-shaped
    prism_eval.t1(ctx, 8, 0, "NamedSmall" if quick else "Named", [1, 3])
    precs = prism_eval.emit(ctx, 8, 0, "NamedSmall" if quick else "Named", [2] if quick else [1, 3])
    grown = prism_eval.emit(ctx, 4, 10, "Tri0", [1], simulate=2 if quick else 12, depth=9)
    precs += prism_eval.pick(grown, 8 if quick else 150, ctx.seed)
    ctx.extra["prisms_with_triangulated_caps"] = len(precs)
    pcases = prism_eval.build_cases(precs, ctx.tier, ctx.seed, variant="tri")
    if quick:
        # the listed finding (a point in the plane of a face of a rotated prism, known_findings.json) is exercised in every tier
        from ..placement import palette as _pal
        zig = [r for r in prism_eval.emit(ctx, 8, 0, "NamedSmall", [3]) if r["poly"][:3] == [[0, 0], [2, 2], [4, 0]] and len(r["poly"]) == 8]
        pcases += [{"rec": r, "pl": _pal(8, ctx.tier)[2].to_json(), "kt": 0, "kb": 3, "inside": True, "variant": "tri"} for r in zig]
    prism_eval.replay(ctx, pcases)
    # Polyhedron copies of convex solids: vertices + outward facet cycles of the lattice polytopes of spec/Convex3.tla (faces
    # with 3..n corners: triangles, trapezoids, kites, pentagons, ...), exact measures from the same records as C01
    from .. import convex_driver as cd
    from .. import convex_eval
    from ..placement import palette
    from ..pool import pmap
    import json
    crecs = cd.emit(ctx, "U12", 6 if quick else 8)
    if not quick:
        crecs += cd.emit(ctx, "S9", 30, simulate=20, depth=27, minpts=9)
    else:
        crecs = [r for r in crecs if any(len(f["cyc"]) > 3 for f in r["facets"])][::3]
    ccases = []
    for r in crecs:
        pal = palette(7, ctx.tier)
        k = cd.h(r["v"], ctx.seed)
        for ip, pl in enumerate([pal[0], pal[1 + k % (len(pal) - 1)]] if quick else pal):
            ccases.append({"rec": r, "pl": pl.to_json(), "shift": (k + ip) % 3})
    for case, (mism, st) in zip(ccases, pmap(convex_eval.eval_copy, ccases)):
        ctx.case(("copy", json.dumps(case["rec"]["v"]), json.dumps(case["pl"]), case["shift"]), nontrivial=True,
                 sample={"vertices": case["rec"]["v"], "facets": [f["cyc"] for f in case["rec"]["facets"]], "placement": case["pl"]})
        ctx.traces += 1
        for kk, w in st.get("maxrel", {}).items():
            ctx.maxrel[kk] = max(ctx.maxrel.get(kk, 0.0), w)
        for sig, detail in mism:
            ctx.violation(sig, detail)
    ctx.extra["polyhedron_copies_of_convex_polytopes"] = len(crecs)
    return ctx.finish(rule=RULE, assumptions=[
        "inputs are voxel-solid boundary meshes (unit-square faces) under rational similarity placements",
        "tolerances of DESIGN.md 4.3"])


replay = ve.replay_record
