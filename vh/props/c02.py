"""C02 - General (non-convex) polyhedron measures are exact."""
from .. import voxel_eval as ve

RULE = ("TLC enumerates every manifold face-connected voxel solid with <= MaxCells cells in a box (spec/Voxel3.tla; "
        "contains L, U, C, S shapes and, in the thorough tier, genus-1 frames), with exact volume = #cells, area = "
        "#exposed squares, centroid and second moments by summing unit cubes, and proves in the spec that the coded "
        "area*offset volume, Eberly centroid and signed Kallay inertia over the surface triangulation equal them; the "
        "boundary mesh of every solid is replayed into Polyhedron under rational placements and cyclic shifts of the "
        "face lists; distinct = (cell set, placement, shift); non-trivial = not a single cube at the identity")


def run(ctx):
    quick = ctx.tier == "quick"
    ve.t1(ctx, (3, 3, 2), 3 if quick else 5)
    recs = ve.emit(ctx, (3, 3, 2), 5 if quick else 6)
    if not quick:
        recs += ve.emit(ctx, (3, 3, 3), 12, minemit=8, simulate=40, depth=12)
        ctx.exhaustive = False
    cases = ve.build_cases(recs, ["measures"], ctx.tier, ctx.seed, 1 if quick else 5)
    ve.replay(ctx, cases)
    ctx.extra["solids"] = len(recs)
    return ctx.finish(rule=RULE, assumptions=[
        "inputs are voxel-solid boundary meshes (unit-square faces) under rational similarity placements",
        "tolerances of DESIGN.md 4.3"])


replay = ve.replay_record
