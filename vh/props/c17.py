"""C17 - Parametric shape families generate exactly the documented shapes."""
import json
from concurrent.futures import ThreadPoolExecutor

from .. import families_eval as fe
from ..pool import pmap

RULE = ("spec/Family523.tla states the 62 planes of the 523 family from the symmetry description in exact Q(sqrt5) arithmetic "
        "(T1_Icosahedral: the set is invariant under a five-fold rotation, the cyclic permutation and the sign changes), computes "
        "the exact vertex set at the four irrational corners (T1: 30, 12, 20, 32 vertices), on the edges, at rational interior "
        "points and outside the domain, replayed into Family523.get_shape; "
        "TLC enumerates rational parameter grids of the truncation families 323+ and 423 (incl. the edges and corners of the "
        "domain and points outside it) in spec/Families.tla and computes the exact vertex set of the half-space intersection by "
        "integer Cramer's rule, the minimal vertex separation and the domain verdict (T1: the corners are the documented solids); "
        "get_shape must return exactly that vertex set (or ValueError only when vertices are closer than 1e-4), ValueError "
        "outside the domain; TruncatedTetrahedronFamily is the a = 1 edge; spec/UniformFamilies.tla gives (V,E,F) and face "
        "degrees of the n-gon, prism, antiprism, pyramid, dipyramid families for every n, checked with unit volume/area, origin "
        "centring, equal edges and regular faces on the implementation's output; spec/Factory.tla states the factory contract "
        "(the answer for a key is the shape the key defines, whatever was requested before or done to earlier answers) and all its "
        "Get/Mutate histories of length 4 are replayed against every parametric family; distinct = (family, parameters) / (family, history)")


def run(ctx):
    quick = ctx.tier == "quick"
    dn = 8 if quick else 24
    def grid(lo, hi):
        return list(range(lo * dn - (2 if quick else 3), hi * dn + (3 if quick else 4)))
    with ThreadPoolExecutor(max_workers=4) as ex:
        f1 = ex.submit(fe.emit_family, ctx, "323", dn, grid(1, 3)[:: (1 if not quick else 1)], grid(1, 3))
        f2 = ex.submit(fe.emit_family, ctx, "423", dn, grid(1, 2), grid(2, 3))
        f3 = ex.submit(fe.emit_uniform, ctx, 200)
        # parameters within a few 1e-4 of the degenerate loci (edges of the domain, the line a + c = 4): the exact polytope
        # has very short edges there, which must still be resolved
        f4 = ex.submit(fe.emit_family, ctx, "323", 10000, [10000, 10003, 15002, 20001, 29997, 30000], [10000, 10002, 19998, 25000, 29996, 30000])
        f5 = ex.submit(fe.emit_family, ctx, "423", 10000, [10000, 10002, 15003, 19997, 20000], [20000, 20003, 24998, 29996, 30000])
        pts = fe.POINTS_523["corners"] + (fe.POINTS_523["edges"][::3] + fe.POINTS_523["grid"][5:7] + fe.POINTS_523["outside"][::2]
                                          if quick else fe.POINTS_523["edges"] + fe.POINTS_523["grid"] + fe.POINTS_523["outside"])
        f6 = ex.submit(fe.emit_523, ctx, pts)
        recs = f1.result() + f2.result() + f4.result() + f5.result()
        urecs = f3.result()
        if quick:
            # every n up to 200 for the n-gons (cheap); the solids for n <= 40 and a seeded tenth of the larger n
            urecs = [r for r in urecs if r.get("k") == "corner523" or r.get("fam") == "ngon" or r["n"] <= 40
                     or (r["n"] * 7 + len(r["fam"]) + ctx.seed) % 10 == 0]
        recs523 = f6.result()
    for r, (mism, st) in zip(recs523, pmap(fe.eval_family523, recs523)):
        ctx.case(("523", json.dumps(r["a"]), json.dumps(r["c"])), nontrivial=True,
                 sample={"family": "523", "a": r["a"], "c": r["c"], "in_domain": r["indomain"], "n_exact_vertices": len(r["verts"]),
                         "exact_vertices_Q(sqrt5)": r["verts"][:3]})
        ctx.traces += 1
        ctx.unclear += st.get("unclear", 0)
        for sig, detail in mism:
            ctx.violation(sig, detail)
    for r, (mism, st) in zip(recs, pmap(fe.eval_family, recs)):
        ctx.case((r["fam"], json.dumps(r["a"]), json.dumps(r["c"])), nontrivial=True,
                 sample={"family": r["fam"], "a": r["a"], "c": r["c"], "in_domain": r["indomain"], "exact_vertices": r["verts"][:4],
                         "n_exact_vertices": len(r["verts"]), "min_separation_squared": r["minsep2"]})
        ctx.traces += 1
        for sig, detail in mism:
            ctx.violation(sig, detail)
    # just outside the domain by 1e-9 and far outside
    from ..pool import _init
    _init()
    import coxeter
    for Fam, lo, hi in ((coxeter.families.Family323Plus, (1, 1), (3, 3)), (coxeter.families.Family423, (1, 2), (2, 3))):
        for a, c in ((lo[0] - 1e-9, lo[1]), (lo[0], lo[1] - 1e-9), (hi[0] + 1e-9, hi[1]), (hi[0], hi[1] + 1e-9), (lo[0] - 1, hi[1]), (hi[0], hi[1] + 1),
                     (float("nan"), lo[1])):
            ctx.case((Fam.__name__, a, c))
            try:
                Fam.get_shape(a, c)
                ctx.violation({"cls": Fam.__name__, "obs": "get_shape", "tags": ["outside_accepted"],
                               "msg": f"a={a!r}, c={c!r} outside the domain accepted"}, {"a": a, "c": c})
            except ValueError:
                pass
            except Exception as e:
                ctx.violation({"cls": Fam.__name__, "obs": "get_shape", "tags": ["wrong_exception"],
                               "msg": f"a={a!r}, c={c!r}: {type(e).__name__}"}, {"a": a, "c": c})
    from scipy.constants import golden_ratio as S
    for a, c in ((1 - 1e-9, 2.7), (1.2, S ** 2 - 1e-9), (1.2, 3 + 1e-9), ((5 ** 0.5) / S + 1e-9, 2.8), (0.0, 2.8), (1.2, 4.0)):
        ctx.case(("Family523", a, c))
        try:
            coxeter.families.Family523.get_shape(a, c)
            ctx.violation({"cls": "Family523", "obs": "get_shape", "tags": ["outside_accepted"],
                           "msg": f"a={a!r}, c={c!r} outside the domain accepted"}, {"a": a, "c": c})
        except ValueError:
            pass
    # outside [0, 1] by any amount, down to one ulp and to the smallest subnormal
    import numpy as _np
    for t in (-1e-9, 1 + 1e-9, -1.0, 2.0, -1e-17, -1e-300, float(_np.nextafter(0.0, -1.0)), float(_np.nextafter(1.0, 2.0)), float("nan"), float("inf")):
        ctx.case(("TruncatedTetrahedronFamily", t))
        try:
            coxeter.families.TruncatedTetrahedronFamily.get_shape(t)
            ctx.violation({"cls": "TruncatedTetrahedronFamily", "obs": "get_shape", "tags": ["outside_accepted"],
                           "msg": f"truncation {t!r} accepted"}, {"t": t})
        except ValueError:
            pass
    for r, (mism, st) in zip(urecs, pmap(fe.eval_uniform, urecs)):
        ctx.case(("uniform", r.get("fam", "523corner"), r["n"]), nontrivial=r.get("admissible", True),
                 sample={"family": r.get("fam", "523corner"), "n": r["n"], "expected_counts": r["counts"], "face_degrees": r.get("degrees")})
        ctx.traces += 1
        ctx.unclear += st.get("unclear", 0)
        for sig, detail in mism:
            ctx.violation(sig, detail)
    # the factory contract (spec/Factory.tla): the answer for a key does not depend on earlier requests or on what the client
    # did to earlier answers
    from .. import factory_eval
    PARAMETRIC = ["Family323Plus", "Family423", "Family523", "TruncatedTetrahedronFamily", "RegularNGonFamily", "UniformPrismFamily",
                  "UniformAntiprismFamily", "UniformPyramidFamily", "UniformDipyramidFamily"]
    ctx.extra["factory_histories_replayed"] = factory_eval.run(ctx, PARAMETRIC)
    ctx.exhaustive = False
    return ctx.finish(rule=RULE, assumptions=[
        "Family523 is decided at the listed parameter points of Q(sqrt5) (corners, edge midpoints, centre, rational grid), not on a dense grid: one point costs ~10 s of TLC",
        "metric predicates of the uniform families are float relations on the implementation's output (cos(pi/n) has no exact image)"])


def replay(rec):
    from ..pool import _init
    _init()
    if "job" in rec["detail"]:
        from .. import factory_eval
        return [f"{s['cls']}.{s['obs']}: {s['msg']}" for s, _ in factory_eval.eval_history(rec["detail"]["job"])]
    case = rec["detail"].get("case")
    if case is None:
        return ["replay of domain-edge probes is not supported; rerun the check"]
    fn = fe.eval_family if case.get("k") == "family" else fe.eval_uniform
    return [f"{s['cls']}.{s['obs']}: {s['msg']}" for s, _ in fn(case)[0]]
