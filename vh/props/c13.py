"""C13 - Bounding, bounded, circum- and in-spheres/circles satisfy their definitions."""
import json
from concurrent.futures import ThreadPoolExecutor

from .. import balls_eval as be
from .. import convex_driver as cd
from .. import curved_eval
from .. import polygon_driver as pd
from ..placement import palette
from ..polygon_driver import h
from ..pool import pmap

RULE = ("TLC decides exactly, per state of spec/Convex3.tla and spec/Polygon2.tla, whether a circum-ball exists (all vertices "
        "cospherical / concyclic by the lifted integer determinant) and emits the exact centred balls (centre = exact centroid, "
        "max squared vertex distance; min facet / edge distance as a min-term) and, from spec/Curved.tla, the largest/smallest "
        "semi-axis; replayed into Polygon, ConvexPolygon, Polyhedron, ConvexPolyhedron, Circle, Ellipse, Sphere, Ellipsoid under "
        "rational placements; minimal bounding balls are checked against the definition (contains every vertex; centre in the "
        "convex hull of the vertices it touches), in-balls a posteriori (tangent to every exact face/edge from inside; a "
        "RuntimeError is contested only when an independent tangency solve finds a ball); distinct = (shape, placement)")


def run(ctx):
    quick = ctx.tier == "quick"
    with ThreadPoolExecutor(max_workers=5) as ex:
        f1 = ex.submit(cd.emit, ctx, "U12", 6 if quick else 7, curv=True)
        f2 = ex.submit(cd.emit, ctx, "S9", 12, simulate=2 if quick else 30, depth=9, minpts=5, curv=True)
        f3 = ex.submit(pd.emit_polygons, ctx, 2, 5 if quick else 6, True, None, None, True)
        f4 = ex.submit(curved_eval.emit, ctx, ctx.tier)
        f5 = ex.submit(cd.emit, ctx, "CyclicPrism", 16, minpts=16, curv=True)
        crecs = f1.result() + f2.result()
        cyc = [r for r in f5.result() if len(r["v"]) == 16]
        precs = f3.result()
        cres = f4.result()
    ctx.tlc(cres, "Curved emission for balls")
    if quick:
        crecs = crecs[::4]
        precs = precs[::4]
    def cases(recs, key):
        out = []
        for r in recs:
            pal = palette(7, ctx.tier)
            k = h(r[key], ctx.seed)
            for pl in ([pal[0], pal[1 + k % (len(pal) - 1)]] if quick else pal):
                out.append({"rec": r, "pl": pl.to_json(), "seed": ctx.seed + k % 1000})
        return out
    # the solver fails (and retries under a random rotation) for a few percent of the rotated copies, twice in a row for a few
    # per mille: several thousand seeded queries
    from ..placement import palette as _pal
    cyc_cases = [{"rec": r, "pl": pl.to_json(), "seed": ctx.seed + 31 * i, "repeat": 800 if quick else 4000}
                 for r in cyc for i, pl in enumerate(_pal(7, ctx.tier)[2:5])]
    for fn, cs, label in ((be.eval_solid, cases(crecs, "v") + cyc_cases, "solid"), (be.eval_polygon, cases(precs, "v"), "polygon")):
        for case, (mism, _) in zip(cs, pmap(fn, cs)):
            ctx.case((label, json.dumps(case["rec"]["v"]), json.dumps(case["pl"])), nontrivial=True,
                     sample={"kind": label, "vertices": case["rec"]["v"], "placement": case["pl"],
                             "exact_ball_data": case["rec"]["curv"]["balls"] if label == "solid" else case["rec"]["balls"]})
            ctx.traces += 1
            for sig, detail in mism:
                ctx.violation(sig, detail)
    seen = {}
    for r in cres.records:
        seen.setdefault((r["cls"], str(r["axraw"]), str(r["env"])), r)
    cur = list(seen.values())
    if quick:
        cur = cur[::3]
    for r, (mism, _) in zip(cur, pmap(be.eval_curved, cur)):
        ctx.case(("curved", r["cls"], json.dumps(r["axraw"]), json.dumps(r["env"][-4:])))
        ctx.traces += 1
        for sig, detail in mism:
            ctx.violation(sig, detail)
    ctx.exhaustive = False
    return ctx.finish(rule=RULE, assumptions=[
        "in-ball existence is not decided exactly (irrational normal lengths); minimal bounding balls are checked against the "
        "definition rather than against an exact value (32-bit integers in TLC rule out exact rational miniball arithmetic)",
        "miniball is randomised; the global generators are seeded per case"])


def replay(rec):
    from ..pool import _init
    _init()
    case = rec["detail"]["case"]
    if "cls" in case and "axraw" in case:
        res = be.eval_curved(case)[0]
    elif "curv" in case["rec"]:
        res = be.eval_solid(case)[0]
    else:
        res = be.eval_polygon(case)[0]
    return [f"{s['cls']}.{s['obs']}: {s['msg']}" for s, _ in res]
