"""C10 - Circle, ellipse, sphere and ellipsoid measures equal their defining integrals."""
from .. import curved_eval as ce

RULE = ("TLC enumerates the parameter state machine of spec/Curved.tla (class x semi-axes from a catalogue of rationals "
        "incl. ties and near-ties (1+10^-e), every ordering x centres in all sign patterns x scale 10^-3..10^3) and emits "
        "every observable as an exact term in Q[pi] (closed forms; Gauss-Kummer series enclosure with explicit tail for "
        "the ellipse perimeter; spheroid closed forms and Klamkin-type enclosure for the ellipsoid area); each state is "
        "replayed into Circle/Ellipse/Sphere/Ellipsoid; distinct = (class, axes, centre, scale)")


def run(ctx):
    ce.run_measures(ctx)
    return ctx.finish(rule=RULE, assumptions=[
        "ellipse perimeter and general ellipsoid surface area are decided only up to their rigorous enclosures plus "
        "permutation invariance and homogeneity (DESIGN 5 C10 'Not decided')",
        "semi-axes are rationals (times 10^k); float(Fraction) is the implementation's input"])


replay = ce.replay_measures
