"""C09 - Results are covariant under rotation, translation, scaling and relabelling."""
import json
import random

from .. import covariance_eval as ce
from .. import machine_eval as me
from .. import polygon_driver as pd
from .. import prism_eval
from .. import tri_eval
from ..placement import fl, palette
from ..pool import pmap

RULE = ("spec/Placement.tla states, per observable kind (length, area, volume, point, vector, plane, inertia tensor, "
        "dimensionless, index-valued, ball), how the observable of g.x follows from that of x under g = (s, R, t) and under "
        "relabelling, and TLC proves the laws against the definitions of Geom3 on the lattice symmetry group (24 proper signed "
        "permutations x integer shifts x integer scales) for every lattice polytope state; the harness applies the same law "
        "table to EVERY public observable (by reflection) of every class: the shape built from transformed (and relabelled) "
        "coordinates must show Law_g of what the shape built from the original coordinates shows - rational and random proper "
        "rotations, offsets up to ten diameters, scales 1e-3..1e3, vertex permutations / face shifts, mapped containment "
        "queries and form factors; spec/Prism3.tla adds right prisms over named (comb, saw, spiral, zig-zag, star ...) and grown "
        "non-convex lattice polygons whose caps are single non-convex faces, with exact volume, centroid, inertia tensor and "
        "membership (T1: divergence-theorem sums over the surface triangles = Fubini from the polygon's exact moments), "
        "replayed as Polyhedron for EVERY start vertex of the cap faces under rational placements; "
        "distinct = (class, base, transformation) / (prism, placement, cap shifts)")

CLASSES = ["ConvexPolyhedron", "Polyhedron", "ConvexSpheropolyhedron", "Polygon", "ConvexPolygon", "ConvexSpheropolygon",
           "Circle", "Ellipse", "Sphere", "Ellipsoid"]


def run(ctx):
    import numpy as np
    quick = ctx.tier == "quick"
    kind = ce.lawtable(ctx, quick)
    rnd = random.Random(ctx.seed)
    jobs = []
    for cls in CLASSES:
        for b in me.bases(cls):
            if b.endswith("_nano"):
                continue        # the transformations below are sized for unit-scale bases; scale covariance is applied by the check itself
            trs = []
            for pl in palette(6, ctx.tier):
                if pl.name.startswith("far_"):
                    continue        # the property speaks of translations of up to ten diameters
                trs.append((float(pl.s), np.array(fl(pl.R)), np.array(fl(pl.t)), pl.tags()))
            for k in range(3 if quick else 12):
                s = 10 ** rnd.uniform(-3, 3)
                R = ce.random_rotation(rnd)
                t = np.array([rnd.uniform(-10, 10) for _ in range(3)]) * 10 * s
                trs.append((s, R, t, ["random_rotation", "scaled", "translated"]))
            trs.append((1.0, np.eye(3), np.zeros(3), ["relabel_only"]))
            for i, (s, R, t, tags) in enumerate(trs):
                if cls in me.CURVED and not np.allclose(R, np.eye(3)):
                    # curved shapes are axis-aligned by construction: only translations and scalings apply
                    R = np.eye(3)
                    tags = [x for x in tags if "rot" not in x] or ["identity_placement"]
                if cls in ("Polygon", "ConvexPolygon", "ConvexSpheropolygon", "Circle", "Ellipse") and False:
                    pass
                jobs.append({"cls": cls, "base": b, "s": s, "R": R.tolist(), "t": t.tolist(),
                             "relabel": (i % 2 == 1) or tags == ["relabel_only"], "kind": kind, "tags": tags,
                             "seed": ctx.seed * 100 + i})
    results = pmap(ce.eval_case, jobs, chunksize=4)
    uncl = set()
    for job, (mism, st) in zip(jobs, results):
        ctx.case((job["cls"], job["base"], json.dumps(job["R"]), job["s"], json.dumps(job["t"]), job["relabel"]),
                 nontrivial=job["tags"] != ["identity_placement"],
                 sample={"class": job["cls"], "base": job["base"], "scale": job["s"], "rotation": job["R"], "translation": job["t"],
                         "relabelled": job["relabel"]})
        ctx.traces += 1
        uncl |= set(st.get("unclassified", []))
        for sig, detail in mism:
            d = dict(detail)
            d["job"] = {k: v for k, v in detail["job"].items() if k != "kind"}
            ctx.violation(sig, d)
    ctx.extra["observables_not_in_law_table"] = sorted(uncl)
    # relabelling of faces with many reflex corners: prisms over named and grown non-convex lattice polygons (spec/Prism3.tla),
    # every start vertex of the cap faces, against the exact values (which do not depend on the labelling)
    prism_eval.t1(ctx, 8, 0, "Named", [1, 3])
    if not quick:
        prism_eval.t1(ctx, 2, 6, None, [2], relabel=False)
    precs = prism_eval.emit(ctx, 8, 0, "NamedSmall" if quick else "Named", [2] if quick else [1, 3])
    grown = prism_eval.emit(ctx, 4, 10, "Tri0", [1], simulate=2 if quick else 12, depth=9)
    precs += prism_eval.pick(grown, 10 if quick else 150, ctx.seed)
    ctx.extra["prisms"] = len(precs)
    # the ear clipping itself (AlgPolygon.tla ATriangulate): T1 in the spec, T2 validity of what the code returns
    pd.t1_triangulate(ctx, 2, 5 if quick else 6, "NamedSmall" if quick else "Named")
    trecs = pd.emit_named(ctx, "NamedSmall" if quick else "Named", relabel=True)
    small = pd.emit_polygons(ctx, 2, 5 if quick else 6)
    trecs += [r for r in small if len(r["v"]) > 3][::(9 if quick else 1)]
    ctx.extra["polygons_triangulated"] = len(trecs)
    tri_eval.replay(ctx, tri_eval.build_cases(trecs, ctx.tier, ctx.seed))
    pcases = prism_eval.build_cases(precs, ctx.tier, ctx.seed)
    if quick:
        # the listed finding (a point in the plane of a face of a rotated prism, known_findings.json) is exercised in every tier
        zig = [r for r in prism_eval.emit(ctx, 8, 0, "NamedSmall", [3]) if r["poly"][:3] == [[0, 0], [2, 2], [4, 0]] and len(r["poly"]) == 8]
        pcases += [{"rec": r, "pl": palette(8, ctx.tier)[2].to_json(), "kt": 6, "kb": 5, "inside": True} for r in zig]
    prism_eval.replay(ctx, pcases)
    ctx.exhaustive = False
    return ctx.finish(rule=RULE, assumptions=[
        "metamorphic relation between two runs of the implementation; the exact values themselves are bound by C01-C06, C10-C14",
        "irrational rotations are sampled (seeded), rational ones enumerated", "query points within 1e-6 of the boundary are not asserted"])


def replay(rec):
    from ..pool import _init
    _init()
    from ..runner import Ctx
    if "case" in rec["detail"] and "job" not in rec["detail"]:
        case = rec["detail"]["case"]
        fn = prism_eval.eval_case if "top" in case.get("rec", {}) else tri_eval.eval_case
        return [f"{s['cls']}.{s['obs']}: {s['msg']}" for s, _ in fn(case)[0]]
    job = rec["detail"]["job"]
    job["kind"] = ce.lawtable(Ctx("C09", "quick"), True)
    return [f"{s['cls']}.{s['obs']}: {s['msg']}" for s, _ in ce.eval_case(job)[0]]
