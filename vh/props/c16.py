"""C16 - Queries are free of side effects."""
import random

from .. import purity_eval as pe
from ..pool import pmap

RULE = ("every public property, query method and exporter of each of the ten classes (enumerated by reflection: "
        "properties incl. cached ones, is_inside, compute_form_factor_amplitude, distance_to_surface, get_face_area, "
        "get_dihedral, to_json, to_hoomd, gsd_shape_spec, repr/str, save for seven file types) is run alone and in ordered "
        "pairs on an off-origin, chiral/irregular base shape while the harness holds references to every array the shape "
        "hands out; afterwards handed-out arrays must be bit-identical (rounding-equal if still the live array), arguments "
        "bit-identical, the answer of q2 equal to its answer on a fresh shape, q1 repeatable, and the full public "
        "projection unchanged; distinct = (class, q1, q2)")


def run(ctx):
    from ..pool import _init
    _init()
    quick = ctx.tier == "quick"
    jobs = []
    names = {}
    for cls in pe.ALL:
        h = pe.Held(cls, pe.BASE[cls])
        qn = sorted(pe.queries(h.obj))
        names[cls] = qn
        for q in qn:
            jobs.append({"cls": cls, "q1": q, "q2": None})
            if cls in pe.BASE2:
                jobs.append({"cls": cls, "q1": q, "q2": None, "base": pe.BASE2[cls]})
        pairs = [(a, b) for a in qn for b in qn]
        rnd = random.Random(ctx.seed * 7919 + len(qn))
        rnd.shuffle(pairs)
        # pairs whose first member is known to touch internal state come first
        touchy = [p for p in pairs if any(t in p[0] for t in ("inertia", "hoomd", "save", "face", "centroid", "edges"))]
        rest = [p for p in pairs if p not in touchy]
        chosen = (touchy[:400] + rest[:300]) if quick else pairs
        for a, b in chosen:
            jobs.append({"cls": cls, "q1": a, "q2": b})
    ctx.extra["queries_by_class"] = {k: len(v) for k, v in names.items()}
    ctx.extra["query_names"] = names
    ctx.exhaustive = not quick
    results = pmap(pe.eval_pair, jobs, chunksize=4)
    for job, mism in zip(jobs, results):
        ctx.case((job["cls"], job["q1"], job["q2"], job.get("base")), nontrivial=True,
                 sample={"class": job["cls"], "history": ["construct", "hand out all arrays", job["q1"], job["q2"], job["q1"]]})
        ctx.traces += 1
        for sig, detail in mism:
            ctx.violation(sig, detail)
    try:
        from .. import heap_model
        heap_model.run(ctx)
    except ImportError:
        ctx.notes.append("heap model (spec/HeapModel.tla) not built yet")
        ctx.states = max(ctx.states, 0)
    return ctx.finish(rule=RULE, assumptions=[
        "plotting members are excluded; mutators (setters, diagonalize_inertia, merge_faces, sort_faces) are C03/C08's",
        "handed-out arrays that are still the live internal array may differ by last-digit rounding (1e-12 of the size) "
        "after operations that move the shape and move it back, as the property allows"])


def replay(rec):
    from ..pool import _init
    _init()
    return [f"{s['cls']}.{s['obs']}: {s['msg']}" for s, _ in pe.eval_pair(rec["detail"]["job"])]
