"""C04 - Polygon area, centroid, moments and inertia tensor are exact."""
from .. import polygon_driver as pd

RULE = ("TLC enumerates every state of spec/Polygon2.tla (simple lattice polygons grown ear by ear, all reversals and "
        "start vertices) and emits exact area/centroid/second moments obtained by integrating over the growth "
        "triangulation; each polygon is replayed into coxeter.shapes.Polygon (and ConvexPolygon when convex) with "
        "explicit +/- and default normals under rational placements (s,R,t); distinct = (vertex cycle, normal "
        "variant, class, placement); non-trivial = not a bare triangle under the identity placement")


def run(ctx):
    quick = ctx.tier == "quick"
    pd.t1(ctx, 2, 5 if quick else 6)
    recs = pd.emit_polygons(ctx, 2, 5 if quick else 6)
    if not quick and len(recs) > 3000:
        # the exhaustive family with every relabelling has 1.5e5 members: all of them are model-checked (T1); a seeded sample of
        # 3000 is replayed under six placements (the full replay took more than eight CPU hours)
        import random
        recs = random.Random(ctx.seed + 4).sample(recs, 3000)
    # named polygons with many reflex corners (combs, saw, spiral, zig-zag, star; 6-16 vertices), every relabelling
    pd.t1_named(ctx, "NamedSmall" if quick else "Named")
    named = pd.emit_named(ctx, "NamedSmall" if quick else "Named")
    recs += named[::5] if quick else named
    if not quick:
        recs += pd.emit_polygons(ctx, 3, 7, relabel=True, simulate=400, depth=12)[::8]
    ctx.exhaustive = False
    cases = pd.build_cases(recs, "measures", ctx.tier, ctx.seed, 2 if quick else 6)
    pd.replay(ctx, cases)
    ctx.extra["polygons"] = len(recs)
    return ctx.finish(rule=RULE, assumptions=[
        "inputs are lattice polygons under rational similarity placements; float(int) and float(Fraction) are the "
        "implementation's inputs", "tolerances of DESIGN.md 4.3", "polygons with a straight-angle vertex that the "
        "constructor rejects are counted as unclear, not as violations"])


replay = pd.replay_record
