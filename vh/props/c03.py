"""C03 - Mutable shapes stay coherent under any history of mutations."""
from concurrent.futures import ThreadPoolExecutor

from .. import machine_eval as me
from ..pool import pmap

RULE = ("TLC explores the complete state graph of spec/ShapeMachine.tla for each vertex-based class and base shape "
        "(actions: every size setter x scale factors, bad targets, centroid/center, rounding radius, "
        "diagonalize_inertia, sort_faces, merge_faces, reading the memoised edges, to_hoomd) checking Coherent, NoMirror, "
        "FailAtomic, SetterSimilar, BadTargetRefused, QueryPure; every transition of the graph becomes one "
        "implementation history (shortest path to its source state + the transition), executed on the real object with "
        "the full public projection compared after each step with a freshly constructed shape and with the spec's "
        "predictions; distinct = (class, base, source state, call)")

CLASSES = ["ConvexPolyhedron", "Polyhedron", "ConvexSpheropolyhedron", "Polygon", "ConvexPolygon", "ConvexSpheropolygon"]


def jobs_for(ctx, cls, basename, want, limit, walks=None):
    flags = me.flags_for(cls, basename)
    if flags["HasCircum"] is None or flags["HasIn"] is None:
        ctx.unclear += 1
        return [], 0
    edges = me.explore(ctx, cls, flags, "LambdasQ" if ctx.tier == "quick" else "LambdasT", 3 if ctx.tier == "quick" else 6)
    hs, total = me.histories(edges, want, limit, ctx.seed)
    jobs = [{"cls": cls, "base": basename, "hist": h, "seed": ctx.seed} for h in hs]
    if walks:
        n, length = walks
        sel = [e for e in edges if want(e)]
        for w in me.random_walks(sel, n, length, ctx.seed * 31 + len(basename)):
            if w:
                jobs.append({"cls": cls, "base": basename, "hist": w, "seed": ctx.seed, "walk": True})
    return jobs, total


def run_machine(ctx, want, limit_quick, limit_thorough, classes=CLASSES, walks=None):
    quick = ctx.tier == "quick"
    todo = []
    for cls in classes:
        names = list(me.bases(cls))
        if quick:
            names = names[:2] + [n for n in names[2:] if n.endswith("_nano") or n.endswith("_far")]
        for b in names:
            todo.append((cls, b))
    from ..pool import _init
    _init()
    with ThreadPoolExecutor(max_workers=4) as ex:
        res = list(ex.map(lambda cb: jobs_for(ctx, cb[0], cb[1], want, limit_quick if quick else limit_thorough, walks), todo))
    jobs = [j for js, _ in res for j in js]
    ctx.extra["transitions_in_graphs"] = sum(t for _, t in res)
    ctx.extra["transitions_replayed"] = sum(1 for j in jobs if not j.get("walk"))
    ctx.extra["random_walks_replayed"] = sum(1 for j in jobs if j.get("walk"))
    ctx.exhaustive = ctx.extra["transitions_replayed"] == ctx.extra["transitions_in_graphs"]
    results = pmap(me.run_history, jobs, chunksize=8)
    import json
    for job, mism in zip(jobs, results):
        last = job["hist"][-1]
        ctx.case((job["cls"], job["base"], json.dumps(last["pre"], sort_keys=True), json.dumps(last["ret"], sort_keys=True),
                  len(job["hist"]) if job.get("walk") else 0),
                 nontrivial=len(job["hist"]) > 1,
                 sample={"class": job["cls"], "base": job["base"],
                         "history": [h["ret"] for h in job["hist"]], "expected_post_state": last["post"]})
        ctx.traces += 1
        for sig, detail in mism:
            ctx.violation(sig, detail)


def run(ctx):
    run_machine(ctx, lambda e: True, 220, 2500, walks=(3, 30) if ctx.tier == "quick" else (20, 100))
    return ctx.finish(rule=RULE, assumptions=[
        "histories longer than the graph's diameter are covered by the abstraction (equal abstract states behave alike) "
        "and, in the thorough tier, by the larger scale-factor alphabet",
        "coherence oracle (b) is the implementation's own constructor applied to the current vertices; C01/C02/C04 bind "
        "that constructor to the exact values"])


def replay(rec):
    from ..pool import _init
    _init()
    mism = me.run_history(rec["detail"]["job"])
    return [f"{s['cls']}.{s['obs']}: {s['msg']}" for s, _ in mism]
